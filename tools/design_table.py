#!/usr/bin/env python3
"""Rewrites the generated table in DESIGN.md section 9.6 from selftest/RESULTS.json."""
import json, os, re
V = os.path.dirname(os.path.dirname(os.path.abspath(__file__)))
res = json.load(open(os.path.join(V, "selftest/RESULTS.json")))
rows = ["| change | kind | property | checked under | verdict | first failing obligation |", "|---|---|---|---|---|---|"]
det = 0
for n in sorted(res):
    r = res[n]
    if r.get("status"):
        rows.append(f"| {n} | {r.get('kind','')} | | | {r['status']} | |"); continue
    kind = "seeded" if r["kind"] == "seeded" else "hand"
    note = ""
    d = os.path.join(V, r["kind"], n, "meta.json")
    first = (r.get("first") or "").replace("FAILED obligation ", "").replace("FAILED bounded stand-in ", "bounded: ").replace("|", "\\|")
    first = re.sub(r"/root/selftest-wt/", "", first)[:110]
    ok = bool(r.get("detected_by"))
    det += ok
    rows.append(f"| {n} | {kind} | {r['property']} | {', '.join(r['checked'])} | {'detected by ' + ', '.join(r['detected_by']) if ok else '**missed**'} | {first} |")
rows.append("")
rows.append(f"{len(res)} changes, {det} detected.")
p = os.path.join(V, "DESIGN.md")
s = open(p).read()
b, e = "<!-- selftest-table-begin -->", "<!-- selftest-table-end -->"
s = s[:s.index(b) + len(b)] + "\n" + "\n".join(rows) + "\n" + s[s.index(e):]
open(p, "w").write(s)
print(f"{len(res)} changes, {det} detected")
