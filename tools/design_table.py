#!/usr/bin/env python3
"""Rewrites the generated table in DESIGN.md section 9.6 from selftest/RESULTS.json."""
import json, os, re
V = os.path.dirname(os.path.dirname(os.path.abspath(__file__)))
res = json.load(open(os.path.join(V, "selftest/RESULTS.json")))
rows = ["| change | kind | property | checked under | verdict | first failing obligation |", "|---|---|---|---|---|---|"]
det = 0
for n in sorted(res):
    r = res[n]
    if r.get("status"):
        rows.append(f"| {n} | {r.get('kind','')} | | | {r['status']} | |"); continue
    kind = "seeded" if r["kind"] == "seeded" else ("harmless" if r.get("harmless") else "hand")
    note = ""
    d = os.path.join(V, r["kind"], n, "meta.json")
    first = (r.get("first") or "").replace("FAILED obligation ", "").replace("FAILED bounded stand-in ", "bounded: ").replace("|", "\\|")
    first = re.sub(r"/root/selftest-wt/", "", first)[:110]
    ok = bool(r.get("detected_by"))
    if r.get("harmless"):
        rows.append(f"| {n} | harmless edit | {r['property']} | {', '.join(r['checked'])} | {'**false alarm**' if ok else 'quiet (as it must be)'} | {first} |")
        continue
    det += ok
    rows.append(f"| {n} | {kind} | {r['property']} | {', '.join(r['checked'])} | {'detected by ' + ', '.join(r['detected_by']) if ok else '**missed**'} | {first} |")
rows.append("")
nh = sum(1 for r in res.values() if r.get("harmless"))
rows.append(f"{len(res) - nh} property-breaking changes, {det} detected; {nh} behaviour-preserving edits, all quiet unless marked.")
p = os.path.join(V, "DESIGN.md")
s = open(p).read()
b, e = "<!-- selftest-table-begin -->", "<!-- selftest-table-end -->"
s = s[:s.index(b) + len(b)] + "\n" + "\n".join(rows) + "\n" + s[s.index(e):]
# per-property summary from the evidence files of the last runs
rows2 = ["| property | tier of last run | functions under contract | obligations (all discharged) | back ends | bounded stand-ins (not counted) |", "|---|---|---|---|---|---|"]
import glob
for f in sorted(glob.glob(os.path.join(V, "evidence", "C*.json"))):
    e = json.load(open(f))
    c = e["coverage"]
    fns = [x["name"].replace("github.com/tigerwill90/fox", "fox") for x in c.get("functions_under_contract", [])]
    be = ", ".join(f"{k}: {v}" for k, v in sorted(c.get("by_backend", {}).items()))
    bd = "; ".join(f"{(b.get('spec') or b.get('Spec') or {}).get('test','')}" for b in (c.get("bounded") or []))
    shown = ", ".join(fns[:6]) + (f", … ({len(fns)} in all)" if len(fns) > 6 else "")
    rows2.append(f"| {e['property_id']} | {e['tier']} | {shown} | {c['obligations']} ({c['discharged']}) | {be} | {bd or '—'} |")
b2, e2 = "<!-- evidence-table-begin -->", "<!-- evidence-table-end -->"
if b2 in s:
    s = s[:s.index(b2) + len(b2)] + "\n" + "\n".join(rows2) + "\n" + s[s.index(e2):]
open(p, "w").write(s)
print(f"{len(res)} changes, {det} detected")
