#!/usr/bin/env python3
"""usage: mkharm.py <name> <props,comma> <note> <file> <old> <new> [<file> <old> <new> ...]"""
import sys, subprocess, os, json
name, props, note = sys.argv[1:4]
rest = sys.argv[4:]
if subprocess.run(["git","-C","/repo","status","--porcelain"],capture_output=True,text=True).stdout.strip(): sys.exit("repo dirty")
for i in range(0,len(rest),3):
    f,old,new=rest[i:i+3]
    p=os.path.join("/repo",f); s=open(p).read()
    assert s.count(old)>=1,(f,old)
    open(p,"w").write(s.replace(old,new))
r=subprocess.run("cd /repo && GOFLAGS=-mod=mod GOPROXY=off go build ./... ",shell=True,capture_output=True,text=True)
if r.returncode: 
    subprocess.run(["git","-C","/repo","checkout","--","."]); sys.exit("does not build: "+r.stderr)
d=f"/verif/selftest/harmless/{name}"; os.makedirs(d,exist_ok=True)
open(f"{d}/patch.diff","w").write(subprocess.run(["git","-C","/repo","diff"],capture_output=True,text=True).stdout)
ps=props.split(",")
json.dump({"property":props,"check_props":ps,"note":note},open(f"{d}/meta.json","w"))
subprocess.run(["git","-C","/repo","checkout","--","."])
print("created",d)
