#!/bin/bash
# Re-confirms every kept seeded change against /repo HEAD in a scratch worktree (outside /repo and /verif):
# patch applied => suite green and demo fails; reverted => demo passes.
export GOFLAGS=-mod=mod GOPROXY=off
WT=$(mktemp -d /root/seedwt.XXXX); rmdir $WT
git -C /repo worktree add -q --detach $WT HEAD || exit 2
for D in /verif/seeded/${1:-*}/; do
  N=$(basename $D)
  cd $WT && git checkout -q -- . && git clean -fdq
  git apply $D/patch.diff || { echo "$N patch-does-not-apply"; continue; }
  SUITE=$(go test -vet=off -count=1 ./... 2>&1 | grep -c "^FAIL\|^--- FAIL")
  cp $D/demo_test.go zz_demo_test.go
  TEST=$(grep -o "func TestDemo[A-Za-z0-9_]*" zz_demo_test.go | head -1 | sed 's/func //')
  go test -vet=off -count=1 -run "^$TEST\$" . >/dev/null 2>&1; M=$?
  git checkout -q -- .
  go test -vet=off -count=1 -run "^$TEST\$" . >/dev/null 2>&1; C=$?
  rm -f zz_demo_test.go
  echo "$N suite_failures=$SUITE demo_with_patch_exit=$M demo_clean_exit=$C"
done
cd / && git -C /repo worktree remove --force $WT
