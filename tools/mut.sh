#!/bin/bash
# usage: tools/mut.sh <prop> <patch-file> [tier]
# Applies the patch to /repo, runs the property's check, reverts. Prints the verdict.
PROP="$1"; PATCH="$(realpath "$2")"; TIER="${3:-quick}"
cd /repo || exit 2
if [ -n "$(git status --porcelain)" ]; then echo "repo dirty"; exit 2; fi
git apply "$PATCH" || { echo "patch does not apply"; exit 2; }
cd /verif && ./bin/check "$PROP" "$TIER" > /tmp/mut.out 2>&1; rc=$?
git -C /repo checkout -- . 
grep -E "^FAILED|^VIOLATION|^ERROR|counterexample|obligations" /tmp/mut.out | head -${MUT_LINES:-12}
echo "exit=$rc"
