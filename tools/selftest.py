#!/usr/bin/env python3
"""Must-fail corpus runner.  usage: selftest.py [name-substring ...]
Applies every change under selftest/mutants/ and seeded/ to a scratch worktree of /repo (outside /repo and /verif),
runs the quick check of the property (or of meta.json "check_props") against it with a scratch output directory,
and writes selftest/RESULTS.json + prints a table.  A change counts as detected when some check exits 1 with a VIOLATION line."""
import json, os, subprocess, sys, shutil, time
V = "/verif"
WT = "/root/selftest-wt"
OUT = "/root/selftest-out"
env = dict(os.environ, GOFLAGS="-mod=mod", GOPROXY="off")
def sh(*a, **k): return subprocess.run(a, capture_output=True, text=True, env=env, **k)
def main():
    pats = sys.argv[1:]
    sh("git", "-C", "/repo", "worktree", "remove", "--force", WT)
    shutil.rmtree(WT, ignore_errors=True)
    r = sh("git", "-C", "/repo", "worktree", "add", "--detach", WT, "HEAD")
    if r.returncode: sys.exit(r.stderr)
    # the working tree's uncommitted contract edits are part of what is checked
    d = sh("git", "-C", "/repo", "diff").stdout
    if d.strip():
        subprocess.run(["git", "-C", WT, "apply"], input=d, text=True)
        sh("git", "-C", WT, "-c", "user.name=x", "-c", "user.email=a@b", "commit", "-qam", "wip")
    shutil.rmtree(OUT, ignore_errors=True); os.makedirs(OUT)
    # snapshot of everything the run reads, so that the corpus can run while /verif is being edited
    shutil.copytree(os.path.join(V, "standins"), os.path.join(OUT, "standins"))
    shutil.copy(os.path.join(V, "known_findings.json"), os.path.join(OUT, "known_findings.json"))
    shutil.copytree(os.path.join(V, "foxvc/externs"), os.path.join(OUT, "externs"))
    shutil.copy(os.path.join(V, "bin/foxvc"), os.path.join(OUT, "foxvc"))
    results = {}
    resfile = os.path.join(V, "selftest", "RESULTS.json")
    if pats and os.path.exists(resfile):
        results = json.load(open(resfile))
    items = []
    for kind in ("selftest/mutants", "seeded", "selftest/harmless"):
        for n in sorted(os.listdir(os.path.join(V, kind))):
            dd = os.path.join(V, kind, n)
            if os.path.exists(os.path.join(dd, "patch.diff")) and (not pats or any(p in n for p in pats)):
                items.append((kind, n, dd))
    for kind, n, dd in items:
        meta = json.load(open(os.path.join(dd, "meta.json")))
        props = meta.get("check_props") or [meta["property"]]
        sh("git", "-C", WT, "checkout", "--", "."); sh("git", "-C", WT, "clean", "-fdq")
        r = sh("git", "-C", WT, "apply", os.path.join(dd, "patch.diff"))
        if r.returncode:
            results[n] = {"kind": kind, "status": "patch-does-not-apply"}; print(n, "PATCH DOES NOT APPLY"); continue
        det, first, secs, ded, bnd = [], "", 0, [], 0
        for p in props:
            t = time.time()
            r = sh(os.path.join(OUT, "foxvc"), "check", "-repo", WT, "-prop", p, "-tier", "quick", "-fast", "-out", OUT, "-externs", os.path.join(OUT, "externs"))
            secs += time.time() - t
            failed = [l for l in r.stdout.splitlines() if l.startswith("FAILED")]
            viol = [l for l in r.stdout.splitlines() if l.startswith("VIOLATION")]
            for l in failed:
                if l.startswith("FAILED bounded"): bnd += 1
                else: ded.append(l[len("FAILED obligation "):].split(" at ")[0][:160])
            if r.returncode == 1 and viol:
                det.append(p)
                # the most telling line first: a definite (non-timeout) obligation, then any obligation, then a stand-in
                pref = [l for l in failed if l.startswith("FAILED obligation") and "(timeout)" not in l] or [l for l in failed if l.startswith("FAILED obligation")] or failed
                if not first and pref: first = pref[0][:200]
            elif r.returncode not in (0, 1):
                first = first or ("exit %d: %s" % (r.returncode, (r.stdout + r.stderr)[-200:]))
        results[n] = {"kind": kind, "property": meta["property"], "checked": props, "detected_by": det, "first": first, "seconds": round(secs, 1), "obligations_failed": ded[:12], "n_obligations_failed": len(ded), "n_definite": len([x for x in ded if "(timeout)" not in x]), "n_standin_mismatches": bnd}
        if kind == "selftest/harmless":
            # behaviour-preserving edits: an alarm here is a false alarm
            results[n]["harmless"] = True
            print("%-34s %-8s %-10s %s" % (n, ",".join(props), "FALSE-ALARM" if det else "QUIET", first[:110]), flush=True)
            continue
        how = "DETECTED" if det else "MISSED"
        if det and not [x for x in ded if "(timeout)" not in x]: how = "DET-BOUNDED" if bnd else "DET-TIMEOUT"
        print("%-34s %-8s %-11s %s" % (n, ",".join(props), how, first[:110]), flush=True)
    sh("git", "-C", "/repo", "worktree", "remove", "--force", WT)
    shutil.rmtree(OUT, ignore_errors=True)
    json.dump(results, open(resfile, "w"), indent=1, sort_keys=True)
    breaking = {n: r for n, r in results.items() if not r.get("harmless")}
    missed = [n for n, r in breaking.items() if not r.get("detected_by")]
    false_alarms = [n for n, r in results.items() if r.get("harmless") and r.get("detected_by")]
    print("%d changes, %d detected, missed: %s; %d harmless edits, false alarms: %s" % (len(breaking), len(breaking) - len(missed), missed, len(results) - len(breaking), false_alarms))
main()
