#!/usr/bin/env python3
"""Must-fail corpus runner.  usage: selftest.py [-w WORKERS] [name-substring ...]
Applies every change under selftest/mutants/ and seeded/ (and the behaviour-preserving edits under selftest/harmless/)
to scratch worktrees of /repo (outside /repo and /verif), runs the quick check of the property (or of meta.json
"check_props") against it in development mode (-fast) with a scratch output directory, and writes selftest/RESULTS.json
+ prints a table.  A change counts as detected when some check exits 1 with a VIOLATION line.  Several changes are
checked at once (WORKERS worktrees, FOXVC_JOBS solver processes each)."""
import json, os, subprocess, sys, shutil, time, threading, queue
V = "/verif"
BASE = "/root/selftest"
env = dict(os.environ, GOFLAGS="-mod=mod", GOPROXY="off")
def sh(*a, **k): return subprocess.run(a, capture_output=True, text=True, **{"env": env, **k})

def main():
    args = sys.argv[1:]
    workers = 3
    if args[:1] == ["-w"]:
        workers = int(args[1]); args = args[2:]
    pats = args
    shutil.rmtree(BASE, ignore_errors=True); os.makedirs(BASE)
    sh("git", "-C", "/repo", "worktree", "prune")
    # snapshot of everything the run reads, so that the corpus can run while /verif is being edited
    SNAP = os.path.join(BASE, "snap"); os.makedirs(SNAP)
    shutil.copytree(os.path.join(V, "standins"), os.path.join(SNAP, "standins"))
    shutil.copy(os.path.join(V, "known_findings.json"), os.path.join(SNAP, "known_findings.json"))
    shutil.copytree(os.path.join(V, "foxvc/externs"), os.path.join(SNAP, "externs"))
    shutil.copy(os.path.join(V, "bin/foxvc"), os.path.join(SNAP, "foxvc"))
    d = sh("git", "-C", "/repo", "diff").stdout
    results = {}
    resfile = os.path.join(V, "selftest", "RESULTS.json")
    if pats and os.path.exists(resfile):
        results = json.load(open(resfile))
    items = queue.Queue()
    for kind in ("selftest/mutants", "seeded", "selftest/harmless"):
        for n in sorted(os.listdir(os.path.join(V, kind))):
            dd = os.path.join(V, kind, n)
            if os.path.exists(os.path.join(dd, "patch.diff")) and (not pats or any(p in n for p in pats)):
                shutil.copytree(dd, os.path.join(SNAP, "items", n))
                items.put((kind, n, os.path.join(SNAP, "items", n)))
    lock = threading.Lock()
    wenv = dict(env, FOXVC_JOBS=str(max(4, 16 // workers + 1)))

    def worker(k):
        WT = os.path.join(BASE, "wt%d" % k); OUT = os.path.join(BASE, "out%d" % k)
        r = sh("git", "-C", "/repo", "worktree", "add", "--detach", WT, "HEAD")
        if r.returncode:
            print("worktree:", r.stderr); return
        if d.strip():
            # the working tree's uncommitted contract edits are part of what is checked
            subprocess.run(["git", "-C", WT, "apply"], input=d, text=True)
            sh("git", "-C", WT, "-c", "user.name=x", "-c", "user.email=a@b", "commit", "-qam", "wip")
        os.makedirs(OUT)
        os.symlink(os.path.join(SNAP, "standins"), os.path.join(OUT, "standins"))
        os.symlink(os.path.join(SNAP, "known_findings.json"), os.path.join(OUT, "known_findings.json"))
        while True:
            try:
                kind, n, dd = items.get_nowait()
            except queue.Empty:
                break
            meta = json.load(open(os.path.join(dd, "meta.json")))
            props = meta.get("check_props") or [meta["property"]]
            sh("git", "-C", WT, "checkout", "--", "."); sh("git", "-C", WT, "clean", "-fdq")
            r = sh("git", "-C", WT, "apply", os.path.join(dd, "patch.diff"))
            if r.returncode:
                with lock:
                    results[n] = {"kind": kind, "status": "patch-does-not-apply"}; print(n, "PATCH DOES NOT APPLY", flush=True)
                continue
            det, first, secs, ded, bnd = [], "", 0, [], 0
            for p in props:
                t = time.time()
                r = subprocess.run([os.path.join(SNAP, "foxvc"), "check", "-repo", WT, "-prop", p, "-tier", "quick", "-fast", "-out", OUT,
                                    "-externs", os.path.join(SNAP, "externs")], capture_output=True, text=True, env=wenv)
                secs += time.time() - t
                out = r.stdout.replace(WT, "/repo")
                failed = [l for l in out.splitlines() if l.startswith("FAILED")]
                errs = [l for l in out.splitlines() if l.startswith("ERROR")]
                viol = [l for l in out.splitlines() if l.startswith("VIOLATION")]
                for l in failed:
                    if l.startswith("FAILED bounded"): bnd += 1
                    else: ded.append(l[len("FAILED obligation "):].split(" at ")[0][:160])
                if r.returncode == 1 and viol:
                    det.append(p)
                    # the most telling line first: a definite (non-timeout) obligation, then any obligation, then a stand-in
                    pref = ([l for l in failed if l.startswith("FAILED obligation") and "(timeout)" not in l]
                            or [l for l in failed if l.startswith("FAILED obligation")] or failed or errs)
                    if not first and pref: first = pref[0][:200]
                elif r.returncode not in (0, 1):
                    first = first or ("exit %d: %s" % (r.returncode, (r.stdout + r.stderr)[-200:]))
            res = {"kind": kind, "property": meta["property"], "checked": props, "detected_by": det, "first": first, "seconds": round(secs, 1),
                   "obligations_failed": ded[:12], "n_obligations_failed": len(ded),
                   "n_definite": len([x for x in ded if "(timeout)" not in x]), "n_standin_mismatches": bnd}
            how = "DETECTED" if det else "MISSED"
            if det and not res["n_obligations_failed"]:
                how = "DET-BOUNDED" if bnd else "DET-OTHER"
            if kind == "selftest/harmless":
                # behaviour-preserving edits: an alarm here is a false alarm
                res["harmless"] = True
                how = "FALSE-ALARM" if det else "QUIET"
            with lock:
                results[n] = res
                print("%-34s %-8s %-11s %s" % (n, ",".join(props), how, first[:110]), flush=True)
        sh("git", "-C", "/repo", "worktree", "remove", "--force", WT)

    ths = [threading.Thread(target=worker, args=(k,)) for k in range(workers)]
    for t in ths: t.start()
    for t in ths: t.join()
    shutil.rmtree(BASE, ignore_errors=True)
    sh("git", "-C", "/repo", "worktree", "prune")
    json.dump(results, open(resfile, "w"), indent=1, sort_keys=True)
    breaking = {n: r for n, r in results.items() if not r.get("harmless")}
    missed = [n for n, r in breaking.items() if not r.get("detected_by")]
    false_alarms = [n for n, r in results.items() if r.get("harmless") and r.get("detected_by")]
    print("%d changes, %d detected, missed: %s; %d harmless edits, false alarms: %s" % (len(breaking), len(breaking) - len(missed), missed, len(results) - len(breaking), false_alarms))
main()
