#!/bin/bash
# usage: seed_intake.sh <prop> <worktree> <first-index>   -- verifies out/1, out/2 of a sub-agent worktree, keeps them as
# /verif/seeded/<prop>-s<k>, then runs the property's check (fast mode) against each and prints the verdict
PROP="$1"; WT="$2"; K="$3"
O=/root/intake-out; mkdir -p $O; ln -sfn /verif/standins $O/standins; ln -sf /verif/known_findings.json $O/known_findings.json
for i in $(ls "$WT/out" 2>/dev/null | grep -E "^[0-9]+$" | sort -n); do
  N="$PROP-s$((K+i-1))"
  /verif/tools/seed_verify.sh "$WT" $i "$PROP" "$N" 2>&1 | tail -2
  [ -f /verif/seeded/$N/patch.diff ] || continue
  cd /repo && [ -z "$(git status --porcelain)" ] || { echo "repo dirty"; exit 2; }
  git apply /verif/seeded/$N/patch.diff || { echo "$N: patch does not apply to /repo HEAD"; continue; }
  OUT=$(/verif/bin/foxvc check -repo /repo -prop "$PROP" -fast -externs /verif/foxvc/externs -out $O 2>&1)
  git -C /repo checkout -- .
  echo "$N: $(echo "$OUT" | tail -1)"
  echo "$OUT" | grep "^FAILED\|^ERROR" | head -3 | cut -c1-220
done
