#!/usr/bin/env python3
"""Generates /verif/MANIFEST.json from the table below (single source of truth)."""
import json, os, subprocess

HERE = os.path.dirname(os.path.dirname(os.path.abspath(__file__)))

TRUSTED = ("Trusted base: the VC generator foxvc (not itself verified; guarded by the must-fail corpus in selftest/), "
           "go/ssa's translation of the source, the SMT solvers (z3 4.8.12, z3 5.1.0, cvc5 1.0), mathematical integers "
           "for Go's int (no overflow), and the extern contracts listed in the evidence file's assumptions.")

CLAIMS = {
    "C17": dict(
        technique="contract-based deductive verification: WP over go/ssa with loop invariants, SMT (z3/cvc5)",
        text=("Proof for all input strings, both sides of the 128-byte buffer switch: CleanPath and bufApp are memory safe and "
              "terminate (decreases clauses on all four loops); the result is canonical (rooted, no empty/'.'/'..' element: "
              "postcondition T2 via the inductive shape invariant); trailing slash kept exactly when the input ended with '/' or a "
              "'.' element and the result is not the root (E1); idempotence as a behaviour `requires canonical(p) ensures result == p`. "
              "Not decided: equality with the split-and-stack reference definition (a dropped pop is caught only through the shape "
              "invariant when it leaves a '..' behind), and the ServeHTTP redirect guard (claimed under C08 once the dispatch "
              "contract exists)."),
        design_ref="DESIGN.md §4 C17, §9",
        note=TRUSTED + " bufApp is verified against its own contract and used modularly in CleanPath."),
}

CLAIMS["C10"] = dict(
    technique="contract-based deductive verification: WP over go/ssa with loop invariants and axiomatised spec functions, SMT (z3/cvc5); bounded RAC search only to find witnesses",
    text=("Proof for all pattern strings and all limits: parseRoute never indexes out of range and terminates; soundness, one postcondition per grammar clause "
          "under err == nil (first slash; every '*' in the path and followed by '{'; every '{' opens a non-empty name closed by the next '}', free of '/','*','{' "
          "(and '.' in hostnames), within the name-length limit and followed by end, '/' (or '.' in hostnames); returned count == number of '{' and within the "
          "parameter limit; two catch-alls never separated by fewer than two bytes; hostname part: LDH alphabet, no leading/trailing '.'/'-', no '.-', '-.', '..', "
          "not all-numeric, label <= 63, total <= 255); completeness for path-only patterns as behaviour `requires validPath(...) ensures err == nil` "
          "(every error return proved unreachable). Not decided: routability of accepted patterns (needs the matcher), completeness for hostname patterns, "
          "parseWildcard's agreement with the validator."),
    design_ref="DESIGN.md §4 C10, §9",
    note=TRUSTED + " Assumed contracts: strings.IndexByte, strings.HasPrefix, fmt.Errorf. A genuine defect found by the star-brace obligation was repaired (known_findings.json).")
CLAIMS["C14"] = dict(
    technique="contract-based deductive verification: representation invariant over ghost state of the wrapped writer, interface contracts, SMT",
    text=("Proof by induction over methods (so for every call sequence): reset establishes and WriteHeader, Write, WriteString, ReadFrom, FlushError preserve the "
          "invariant 'size == -1 iff no final status was forwarded; otherwise size == bytes accepted by the wrapped writer; at most one final status forwarded and it "
          "is the recorded status'; Status/Written/Size are then the property's definitions; informational codes are forwarded without changing state; a second "
          "final WriteHeader forwards nothing; Write/WriteString forward the header first and add exactly the accepted count even on error; ReadFrom has one "
          "postcondition for the io.ReaderFrom fast path and the io.CopyBuffer fallback; capability methods delegate iff the wrapped writer offers the capability and "
          "otherwise return an error that Is http.ErrNotSupported; flush forwards the header first. Not decided: byte order of the body, the Context helpers "
          "String/Blob/Stream/Redirect (not yet under contract)."),
    design_ref="DESIGN.md §4 C14, §9",
    note=TRUSTED + " Assumed interface contracts for foreign http.ResponseWriter / io.ReaderFrom / http.Flusher / Hijacker implementations and for io.WriteString, io.CopyBuffer (foxvc/externs/http.spec). ReadFrom is verified for partial correctness (the sync.Pool type assertion is assumed). A genuine defect in ReadFrom was repaired (known_findings.json).")

NOT_APPLICABLE = {
    "C01": "not yet under contract in this revision (matcher mechanisms planned, DESIGN.md §4 C01)",
    "C02": "not yet under contract in this revision (counters/guards planned, DESIGN.md §4 C02)",
    "C03": "not yet under contract in this revision (ownership frame planned, DESIGN.md §4 C03)",
    "C04": "not yet under contract in this revision (typestate planned, DESIGN.md §4 C04)",
    "C05": "schedules are outside contract reach; sequential publication protocol not yet under contract in this revision",
    "C06": "effect clauses not yet built in this revision (DESIGN.md §4 C06)",
    "C07": "relational over pairs of histories; a contract constrains one call (DESIGN.md §5)",
    "C08": "not yet under contract in this revision beyond FixTrailingSlash (DESIGN.md §4 C08)",
    "C09": "not yet under contract in this revision (DESIGN.md §4 C09)",
    "C10": "not yet under contract in this revision (DESIGN.md §4 C10)",
    "C11": "not yet under contract in this revision (DESIGN.md §4 C11)",
    "C12": "not yet under contract in this revision (DESIGN.md §4 C12)",
    "C13": "not yet under contract in this revision (DESIGN.md §4 C13)",
    "C14": "not yet under contract in this revision (DESIGN.md §4 C14)",
    "C15": "not yet under contract in this revision (DESIGN.md §4 C15)",
    "C16": "only an effect clause is expressible; not yet built in this revision (DESIGN.md §4 C16)",
    "C18": "not yet under contract in this revision (DESIGN.md §4 C18)",
    "C19": "not yet under contract in this revision (DESIGN.md §4 C19)",
    "C20": "not yet under contract in this revision beyond `level` (DESIGN.md §4 C20)",
}


def main():
    hooks = subprocess.run(["git", "-C", "/repo", "log", "--format=%H %s"], capture_output=True, text=True).stdout.splitlines()
    hook_commits = [l.split()[0] for l in hooks if l.split(" ", 1)[1].startswith("verif:")]
    checks = []
    for pid in sorted(CLAIMS):
        c = CLAIMS[pid]
        checks.append({
            "property_id": pid,
            "quick_cmd": f"./bin/check {pid} quick",
            "thorough_cmd": f"./bin/check {pid} thorough",
            "evidence_file": f"/verif/evidence/{pid}.json",
            "replay_cmd_template": "./bin/check --replay {path}",
            "engine": "foxvc",
            "level_claimed": {"category": c.get("category", "proof"), "text": c["text"], "design_ref": c["design_ref"]},
            "level_note": c["note"],
            "technique": c["technique"],
        })
    m = {
        "version": 1,
        "setup_cmd": "./bin/setup",
        "hooks": {
            "guard": "verif",
            "enable": "go build -tags=verif (contract files verif_contracts*.go contain only a build constraint, a package clause and //@ comments)",
            "baseline_off_cmd": "cd /repo && GOFLAGS=-mod=mod GOPROXY=off go test -vet=off -count=1 ./...",
            "source_commits": hook_commits,
            "add_only": True,
        },
        "engines": [{
            "name": "foxvc", "path": "/verif/foxvc",
            "serves_properties": sorted(CLAIMS),
            "kind_free_text": "deductive verifier written for this task: go/packages+go/ssa (naive form) -> passive reachability encoding -> one SMT-LIB query per obligation -> z3 4.8 / z3 5.1 / cvc5 race; contracts are //@ comments in /repo/**/verif_contracts*.go",
        }],
        "checks": checks,
        "not_applicable": [{"property_id": k, "reason": v} for k, v in sorted(NOT_APPLICABLE.items()) if k not in CLAIMS],
        "notes": "See DESIGN.md. Every check rebuilds from /repo's working tree (packages.Load on every run).",
    }
    with open(os.path.join(HERE, "MANIFEST.json"), "w") as f:
        json.dump(m, f, indent=1)
        f.write("\n")


if __name__ == "__main__":
    main()
