#!/usr/bin/env python3
"""Generates /verif/MANIFEST.json from the table below (single source of truth)."""
import json, os, subprocess

HERE = os.path.dirname(os.path.dirname(os.path.abspath(__file__)))

TRUSTED = ("Trusted base: the VC generator foxvc (not itself verified; guarded by the must-fail corpus in selftest/), "
           "go/ssa's translation of the source, the SMT solvers (z3 4.8.12, z3 5.1.0, cvc5 1.0), mathematical integers "
           "for Go's int (no overflow), and the extern contracts listed in the evidence file's assumptions.")

CLAIMS = {
    "C17": dict(
        technique="contract-based deductive verification: WP over go/ssa with loop invariants, SMT (z3/cvc5)",
        text=("Proof for all input strings, both sides of the 128-byte buffer switch: CleanPath and bufApp are memory safe and "
              "terminate (decreases clauses on all four loops); the result is canonical (rooted, no empty/'.'/'..' element: "
              "postcondition T2 via the inductive shape invariant); trailing slash kept exactly when the input ended with '/' or a "
              "'.' element and the result is not the root (E1); idempotence as a behaviour `requires canonical(p) ensures result == p`. "
              "Not decided: equality with the split-and-stack reference definition (a dropped pop is caught only through the shape "
              "invariant when it leaves a '..' behind), and the ServeHTTP redirect guard (claimed under C08 once the dispatch "
              "contract exists)."),
        design_ref="DESIGN.md §4 C17, §9",
        note=TRUSTED + " bufApp is verified against its own contract and used modularly in CleanPath."),
}

CLAIMS["C10"] = dict(
    technique="contract-based deductive verification: WP over go/ssa with loop invariants and axiomatised spec functions, SMT (z3/cvc5); bounded RAC search only to find witnesses",
    text=("Proof for all pattern strings and all limits: parseRoute never indexes out of range and terminates; soundness, one postcondition per grammar clause "
          "under err == nil (first slash; every '*' in the path and followed by '{'; every '{' opens a non-empty name closed by the next '}', free of '/','*','{' "
          "(and '.' in hostnames), within the name-length limit and followed by end, '/' (or '.' in hostnames); returned count == number of '{' and within the "
          "parameter limit; two catch-alls never separated by fewer than two bytes; hostname part: LDH alphabet, no leading/trailing '.'/'-', no '.-', '-.', '..', "
          "not all-numeric, label <= 63, total <= 255); completeness for path-only patterns as behaviour `requires validPath(...) ensures err == nil` "
          "(every error return proved unreachable). Not decided: routability of accepted patterns (needs the matcher), completeness for hostname patterns, "
          "parseWildcard's agreement with the validator."),
    design_ref="DESIGN.md §4 C10, §9",
    note=TRUSTED + " Assumed contracts: strings.IndexByte, strings.HasPrefix, fmt.Errorf. A genuine defect found by the star-brace obligation was repaired (known_findings.json).")
CLAIMS["C14"] = dict(
    technique="contract-based deductive verification: representation invariant over ghost state of the wrapped writer, interface contracts, SMT",
    text=("Proof by induction over methods (so for every call sequence): reset establishes and WriteHeader, Write, WriteString, ReadFrom, FlushError preserve the "
          "invariant 'size == -1 iff no final status was forwarded; otherwise size == bytes accepted by the wrapped writer; at most one final status forwarded and it "
          "is the recorded status'; Status/Written/Size are then the property's definitions; informational codes are forwarded without changing state; a second "
          "final WriteHeader forwards nothing; Write/WriteString forward the header first and add exactly the accepted count even on error; ReadFrom has one "
          "postcondition for the io.ReaderFrom fast path and the io.CopyBuffer fallback; capability methods delegate iff the wrapped writer offers the capability and "
          "otherwise return an error that Is http.ErrNotSupported; flush forwards the header first. The Context helpers: String sets the default content type only when none is set, "
          "then forwards exactly the given status before any body byte and hands format and values to Fprintf on the context's writer; Blob and Stream set the given content type, "
          "forward the given status first and write exactly the given bytes / copy from the given reader; Redirect rejects every code outside 300..308 with ErrInvalidRedirectCode "
          "without touching the response and otherwise calls http.Redirect with the given url and code. Not decided: byte order of the body inside the wrapped writer."),
    design_ref="DESIGN.md §4 C14, §9",
    note=TRUSTED + " Assumed interface contracts for foreign http.ResponseWriter / io.ReaderFrom / http.Flusher / Hijacker implementations and for io.WriteString, io.CopyBuffer (foxvc/externs/http.spec). ReadFrom is verified for partial correctness (the sync.Pool type assertion is assumed). A genuine defect in ReadFrom was repaired (known_findings.json).")

CLAIMS["C02"] = dict(
    technique="contract-based deductive verification (partial correctness): postconditions on the route counter and the search classification, SMT",
    text=("Proved for every tree shape and every call: insert adds exactly one to the route counter when it returns nil and leaves it alone when it fails; update "
          "keeps it; remove subtracts one exactly when it reports success; full Truncate sets it to zero; commit publishes the transaction's counter, so by induction "
          "over any history Len() is (#successful inserts - #successful removes since the last full truncate). methodIndex is fully specified (fixed verbs 0..3, else the "
          "first custom root with that key, else -1); classify/isExactMatch are the documented case split; commonPrefix is fully specified. Router.Handle/Update/Delete publish a tree "
          "whose counter moved by +1/0/-1 exactly on success; Txn write methods return ErrReadOnlyTxn without touching the tree on a read-only transaction. NOT proved, bounded only: "
          "equivalence of the tree with a map (which calls succeed, with which error, conflict lists, Has/Route/Len/Iter contents, Delete's result, failed calls change nothing) - "
          "the stand-in standins/mapmodel_test.go runs every sequence of <=3 (quick) / <=4 (thorough) operations over 13 patterns x 2 methods, directly and inside a write transaction, "
          "against a sequential map with the documented conflict rule. Not decided at all: the per-method Truncate count (countRoutes is trusted), Prefix/Routes/Methods iterators."),
    design_ref="DESIGN.md section 4 C02, section 9",
    note=TRUSTED + " insert/update/remove/truncate are verified for partial correctness: their safety conditions (nil dereference, index, the three internal-error panics) are assumed, not claimed. A genuine defect (Truncate never adjusted the counter) was repaired (known_findings.json).")
CLAIMS["C03"] = dict(
    technique="contract-based deductive verification: heap frame obligations relative to a ghost snapshot reference, SMT",
    text=("Proved for arbitrary tree shapes, cache contents and histories of one write transaction: copyOnWriteSearch, insert, update, remove, truncate, the root helpers, "
          "updateEdge, newNode (in-place sort), clone, getEdges, recreateParentEdge write no heap location that existed at the last snapshot point (ghost snapRef = allocation "
          "pointer at transaction start, Iter on a write transaction, Txn.Snapshot, Commit): every frame obligation is 'unchanged on all references below snapRef'. "
          "The transaction's cache invariant (every cached node and its children array were allocated after snapRef) is established by txn/snapshot/clone/commit, which is "
          "what forces them to drop the cache, and is preserved by every mutation including eviction. Not decided: concurrent schedules; the glue 'memory reachable from a "
          "published root is older than the snapshot point' is argued in DESIGN.md, not machine-checked; readers' purity is covered only by their frames where under contract."),
    design_ref="DESIGN.md section 4 C03, section 9",
    note=TRUSTED + " Assumed contracts: internal/simplelru (Get hits only keys previously added; Add/eviction never invent keys), slices.SortFunc (permutes only its argument). Partial correctness for the tree mutators.")
CLAIMS["C04"] = dict(
    technique="contract-based deductive verification: typestate and ghost lock/publication state, deferred-call and re-panic contracts, SMT",
    text=("Proved (sequential model): a write transaction takes the lock before loading the root it starts from; Commit from the open-write state publishes exactly one new tree "
          "carrying the transaction's root/size/limits while holding the lock, then settles and unlocks; Commit/Abort from any other state change nothing (idempotent); Abort "
          "never publishes; read-only transactions never touch the lock; Updates returns with the lock released on every normal exit, commits exactly when the callback returned "
          "nil and publishes nothing otherwise; its deferred function aborts and re-raises the same panic value when a panic is in flight (checked as a separate behaviour of the "
          "closure), likewise View. Router.Handle/HandleRoute/Update/UpdateRoute/Delete are one locked read-modify-write: lock released on every exit, exactly one publication on success "
          "and none on error, no load of the published tree outside the lock, the returned route is the transaction's. Txn.Handle/HandleRoute/Update/UpdateRoute/Delete panic only on a settled "
          "transaction and return ErrReadOnlyTxn without touching the tree on a read-only one; Txn.Has/Route/Reverse/Lookup/Iter/Len panic only on a settled transaction, never lock, "
          "never publish and leave the transaction's root and counter alone (Iter on a write transaction takes a snapshot first). Not decided: interleavings with concurrent readers (rests on C03 plus the single atomic store)."),
    design_ref="DESIGN.md section 4 C04, section 9",
    note=TRUSTED + " Assumed contracts: sync.Mutex Lock/Unlock and atomic.Pointer Load/Store over ghost state; the callback given to Updates/View neither commits nor aborts the transaction.")
CLAIMS["C05"] = dict(
    technique="contract-based deductive verification of the sequential publication protocol only (schedules are outside contract reach)",
    text=("Reduced level, labelled as such: contracts do not quantify over schedules. Proved are the sequential facts the interleaving argument rests on: lock-then-load in "
          "txnWith (assert-at on the root load), store-under-lock and store-before-unlock in Commit, no publication in Abort, a single Load per read entry (getRoot), and (C03) that "
          "nothing older than the snapshot point is ever written. Race-freedom and linearizability over actual schedules are NOT decided."),
    design_ref="DESIGN.md section 4 C05, section 9",
    note=TRUSTED + " The glue from these facts to race-freedom/linearizability is a paper argument.")
CLAIMS["C06"] = dict(
    technique="contract-based deductive verification: ghost lock-operation counter on read-only paths, SMT",
    text=("Proved path-sensitively: txnWith(false), Router.Txn(false), Commit and Abort of a read-only transaction, View and its deferred function leave the ghost count of "
          "operations on the writer mutex unchanged and never require or change its held state; the same postcondition is proved for ServeHTTP (any handler behaviour), Router.Route, Has, "
          "Reverse, Lookup, Len and Iter, each of which loads the published tree exactly once (a call of an uncontracted function inside the module havocs the ghost lock state, so a helper "
          "that takes the lock fails the clause). Effect clause `nolock`, decided by static call-graph closure inside the module: from ServeHTTP, Router.Lookup/Route/Has/Reverse/Len/Iter and "
          "Txn.Has/Route/Reverse/Lookup/Len/Iter no sync.Mutex/RWMutex lock, Cond.Wait, WaitGroup.Wait, Once.Do, time.Sleep, channel operation, select or go statement is reachable "
          "(handlers and other dynamic calls are not followed). Not decided: progress under an adversarial scheduler, sync.Pool internals."),
    design_ref="DESIGN.md section 4 C06, section 9",
    note=TRUSTED + " Assumed contracts for sync.Mutex over ghost state.")
CLAIMS["C13"] = dict(
    technique="contract-based deductive verification: recursive spec function (define-fun-rec) for the middleware chain, frame obligations, SMT",
    text=("Proved for every middleware list: applyMiddleware returns chain(mws, scope, h, 0) and applyRouteMiddleware the two route chains, where chain applies each entry whose "
          "scope intersects exactly once, earlier entries outermost (abstract application app(m,h)); WithMiddleware appends (m[i], RouteHandler, route-specific) in order and rejects "
          "nil; NewRoute's chains are built over the route's final list, options are applied in order and all of them, and NewRoute never writes into the router's middleware "
          "array (frame obligation; this exposed a genuine sharing defect, repaired). New wires the four special handlers (no-route, no-method, automatic OPTIONS, trailing-slash redirect) "
          "through applyMiddleware with their own scope over the router's final middleware list; ServeHTTP runs route.hall (the chain of global and route middleware) on both the direct "
          "and the ignored-trailing-slash path. Cross-check, bounded only: standins/chain_test.go records the order in which middleware and handlers really execute for all 343 scope "
          "assignments of three global middleware, 0..2 route middleware and all handler kinds, tying the abstract app(m,h) of the contracts to execution. Not decided: DefaultOptions, middleware bodies."),
    design_ref="DESIGN.md section 4 C13, section 9",
    note=TRUSTED + " Assumed contracts: MiddlewareFunc values are abstract (app); RouteOption implementations outside the package obey the option contract.")
CLAIMS["C18"] = dict(
    technique="bit-vector SMT audit over all 2^32 + 2^128 addresses of the CIDR literals read from the source each run",
    text=("Proved for every address: each CIDR literal of the default tables (privateAndLocalRanges, privateRange, loopbackRanges, linkLocalRanges) lies inside the union of the "
          "IANA special-purpose blocks that are not globally reachable (written in clientip/verif_contracts.go). A genuine defect (192.18.0.0/15 for 198.18.0.0/15) was repaired. "
          "Proved for every input string: ParseIPAddr and trimMatchedEnds never panic, ParseIPAddr returns either a fresh non-nil, specified address with a nil error or no address with "
          "ErrInvalidIpAddress/ErrUnspecifiedIpAddress (never an address together with an error); the remote-address and single-header resolvers return an address exactly when the error "
          "is nil; the chain returns the result of the first resolver whose error is nil, all earlier ones having failed, and otherwise a non-nil error and no address (an empty chain "
          "returned nil, nil: genuine defect, repaired). "
          "NOT proved, bounded only: which entry each strategy returns, never a fallback address, and independence of the rightmost strategies from anything on the left - the "
          "strategies use range-over-func iterators with non-local returns, outside the verifier's Go subset; the stand-in standins/clientip_test.go compares every resolver with a "
          "transcription of its documented strategy over all header contents of <=3 (quick) / <=4 (thorough) items from 10 shapes, one or two header lines, both headers, and left padding up to 70000 bytes."),
    design_ref="DESIGN.md section 4 C18, section 9",
    note="Trusted: net.ParseCIDR semantics as re-implemented by the audit (prefix/mask), the registry transcription, the SMT solvers.")
CLAIMS["C19"] = dict(
    technique="contract-based deductive verification of option closures, NewRoute and route accessors, SMT",
    text=("Proved: the two trailing-slash options are mutually exclusive on router and route and disabling one leaves the other; the resolver option (nil route resolver means none, "
          "nil global resolver unchanged) and Route.ClientIPResolver; WithAnnotation stores under hashable keys and rejects the others with ErrInvalidConfig without panicking for "
          "any key (exposed a genuine defect, repaired); NewRoute: fresh route with the pattern, handler, parameter count == number of wildcards and host split at the first slash, "
          "all options applied in order, first error aborts; accessors Hostname/Path/Pattern/ParamsLen; Context.ClientIP uses the matched route's resolver when a route is set and "
          "the router's otherwise (ServeHTTP hands every non-route handler a context with no route). A route created without options inherits the router's trailing-slash mode, resolver and "
          "middleware count; WithNoRouteHandler/WithNoMethodHandler/WithOptionsHandler reject nil with ErrInvalidConfig before touching the router and otherwise install the handler "
          "(the latter two enabling their feature), WithNoMethod/WithAutoOptions set their flag. Not decided: WithMaxRouteParams/KeyBytes, WithMiddlewareFor's closure (WithMiddleware's is)."),
    design_ref="DESIGN.md section 4 C19, section 9",
    note=TRUSTED + " Assumed contracts: reflect.ValueOf/Value.Comparable (hashability), cmp.Or, the RouteOption/optionFunc contracts for foreign options.")
CLAIMS["C20"] = dict(
    technique="contract-based deductive verification of the middleware closure over ghost call/log state, SMT",
    text=("Proved for every handler behaviour: level maps 2xx to INFO, 3xx to DEBUG, 4xx to WARN, >=500 to ERROR, else INFO; the Logger closure calls the wrapped handler exactly "
          "once and first, then emits exactly one record, at level(level of the status observed after the handler), with message the resolver's address when ClientIP succeeds, the "
          "remote address when the error is ErrNoClientIPResolver and 'unknown' otherwise, attributes status/method/host/path from the context's observers and the Location "
          "attribute exactly when the level is DEBUG and the header is non-empty. Not decided: latency, slog formatting, DefaultOptions wiring (C13)."),
    design_ref="DESIGN.md section 4 C20, section 9",
    note=TRUSTED + " Assumed contracts: Context/ResponseWriter observers are functions of the object and the handler-invocation epoch; slog, net, time externs.")

BOUNDED = (" The bounded stand-in (standins/routing_test.go, injected with go test -overlay, labelled bounded in the evidence file and never counted as proved) compares "
           "the real Router with an executable reference of the documented matching rules over every set of <=2 (quick) / <=3 (thorough) routes from a fixed pool of "
           "20 path and 8 hostname patterns plus deep pools, for a fixed probe list; bound: pool, set size and probes.")
CLAIMS["C01"] = dict(
    technique="contract-based deductive verification of the matcher's mechanisms (edge search, method index, host/path fallback) + bounded stand-in for the walk itself",
    text=("Proved for every node/array: linearSearch and binarySearch return the unique static child whose first byte matches or -1 (sortedness of the static edges is a "
          "precondition, re-established by newNode's sort and asserted at every node rebuilt by insert/update/remove), compare is the byte order, methodIndex is fully "
          "specified, roots.lookup tries the hostname walk first with the stripped host and falls back to the path walk exactly when it selected nothing. "
          "The walks themselves, lookupByPath and lookupByDomain (goto-structured, ~480 lines, 9 loops), are under contract for every path/host string, every tree whose nodes are "
          "well-formed and every context: no index, slice-bound or nil failure (full safety, not `partial`); the parameter-key counter always indexes an existing wildcard of the node "
          "(counted by cnt over the key); the stack of saved alternatives only holds valid (node, child, path offset, parameter count) entries whose parameter counts are monotone and "
          "never exceed what is recorded, so every backtrack truncates to a recorded prefix (this is the obligation that fails when the parameter count is not restored); the 32-bit "
          "parameter counter cannot wrap; a reported trailing-slash match always comes with a node; every returned node is a leaf; a lazy walk never grows the parameter list; the caller's "
          "context stays live. parseWildcard is functionally specified for valid key fragments: one entry per '{', each `end` right after its '}' (or -1 at the end of the key), which is "
          "the params part of the node invariant the walks assume, and newNodeFromRef hands it on. "
          "NOT proved (bounded only): WHICH route is selected - priority static > parameter > catch-all, parameters in pattern order, substitution."),
    design_ref="DESIGN.md section 4 C01, section 9, section 10",
    note=TRUSTED + BOUNDED + " Assumed for the walks: node well-formedness of every node in the heap (nodeWF in verif_contracts_walk.go: index ranges, params/end positions agree with the '{' count of the key, childless and catch-all-terminal nodes are leaves, infix catch-alls have an inode) - not proved of the constructors, but checked on every tree the routing and map-model stand-ins build; a sub-walk on a pooled context leaves the caller's buffers alone; the monotonicity axiom of cnt. Two genuine defects found by the stand-in were repaired (parameter count after a second backtrack; known_findings.json); the sibling-dependent trailing-slash priority defect found by the stand-in was repaired as well (no open finding is left).")
CLAIMS["C08"] = dict(
    technique="contract-based deductive verification of request dispatch over an abstract selection function + bounded stand-in for the trailing-slash detection in the walk",
    text=("Proved for every request and router state (ServeHTTP, including its own memory safety: no nil dereference, index or type-assertion failure for a router built by New and routes built by NewRoute): exactly one handler runs; a direct match runs the route's handler with tsr=false; "
          "a trailing-slash-only match runs the route's handler with tsr=true iff the route ignores trailing slashes (and the method is not CONNECT, the path not '/'); it runs "
          "the redirect handler iff the route redirects and the request path equals CleanPath of itself, with no route/params in the context; otherwise the request is "
          "unserved (C11). FixTrailingSlash adds or removes exactly one final slash. copyWithResize keeps the tsr parameters. roots.lookup only ever sets the tsr flag it was "
          "given. The redirect handler answers 301 for GET and 308 otherwise, builds the Location from the escaped request path, as `<last segment>/` (prefixed with `./` whenever "
          "the segment contains ':', so it can never be read as a scheme) or `../<last segment>` (exposed a genuine defect, repaired; RFC 3986 resolution itself is not modelled). NOT proved (bounded only): that the walk reports tsr exactly when the slash-adjusted path has a route and picks the documented route."),
    design_ref="DESIGN.md section 4 C08, section 9, section 10",
    note=TRUSTED + BOUNDED + " Assumed: the contract of (*iTree).lookup (selection is a function of the immutable tree and the request; writes only the context buffers). Two genuine defects were repaired (tsr pointing at the parent route; sibling-dependent tsr priority); no open finding is left.")
CLAIMS["C09"] = dict(
    technique="contract-based deductive verification of host normalisation and of the hostname-first lookup + bounded stand-in for the hostname walk",
    text=("Proved for every Host string: StripHostPort returns the host without a final ':port' (bracketed IPv6 kept), and without one trailing dot; SplitHostZone splits at the "
          "first '%'; roots.lookup hands the hostname walk exactly StripHostPort(Host) and the unchanged path (assert-at on the call), tries it first whenever the method has "
          "hostname routes and falls back to the path-only walk exactly when it selected nothing. NOT proved (bounded only): case handling, label anchoring and the priority of "
          "hostname routes inside lookupByDomain."),
    design_ref="DESIGN.md section 4 C09, section 9, section 10",
    note=TRUSTED + BOUNDED + " Assumed contracts: strings.LastIndexByte/IndexByte/TrimSuffix/Contains, net.SplitHostPort is not used on this path. One genuine defect was repaired (a hostname route matched any Host it is a prefix of).")
CLAIMS["C12"] = dict(
    technique="contract-based deductive verification: postconditions of the context reset variants, of dispatch (what the handler is given) and of CloneWith/Close",
    text=("Proved: reset, resetNil and resetWithWriter overwrite every request-derived field of a recycled context (request, writer, recorder state via recorder.reset (C14), "
          "route, tsr flag, scope, cached query, parameter length 0) whatever it held before; ServeHTTP resets the pooled context before the lookup and the handler is given "
          "exactly the current request, the selected route, its tsr flag and scope, and zero parameters on the unserved paths (loop invariants of the three Allow loops keep the "
          "context clean); CloneWith produces a context with its own parameter array holding the current values; Close returns a context to the pool only when its buffers are "
          "within the router's limits; Router.Lookup hands out a context showing exactly the current request, the selected route and its tsr flag; Clone returns a fresh context whose "
          "recorder snapshots the CURRENT writer's status/size/written flag, with its own copy of the response headers, its own writer and its own parameter array holding the current "
          "values (exposed a genuine defect - the clone showed an earlier request's status and headers - repaired). Pool discipline: no handler is ever invoked with a context that has "
          "already been put back into the pool (ghost `released`), Lookup and CloneWith return live contexts, Close releases. Not decided: that later writes through the original cannot reach the "
          "clone's header map (http.Header.Clone is assumed to be a deep copy), TeeWriter, concurrent reuse (pool semantics assumed)."),
    design_ref="DESIGN.md section 4 C12, section 9",
    note=TRUSTED + " Assumed: sync.Pool Get returns either a fresh context from New or one previously Put (pool-discipline assume-at in ServeHTTP), url.ParseQuery extern. CloneWith/Close/copyWithResize partial correctness.")
CLAIMS["C10"]["text"] += (" Routability half: bounded only - the routing stand-in (see C01) inserts every accepted pattern of its pool, builds requests by substituting values "
                          "and checks the route is selected with those values.")
CLAIMS["C10"]["note"] += BOUNDED

CLAIMS["C11"] = dict(
    technique="contract-based deductive verification of the unserved-request section of ServeHTTP: ghost record of the method keys written to the Allow builder, loop invariants, SMT",
    text=("Proved for every request, router options and tree (ServeHTTP, safety included; selection abstracted as a function of the immutable tree and (method, host, path)): "
          "an unserved request runs exactly one of the options / no-method / no-route handlers with no route, tsr=false, zero parameters and the matching scope; the options handler "
          "runs iff the method is OPTIONS, automatic replies are on and some method serves the host and path directly or by an ignored trailing slash (for '*': some non-OPTIONS "
          "method has routes), and the set of method keys written to the Allow builder is exactly that set, followed by OPTIONS; otherwise with method-not-allowed on, the "
          "no-method handler runs iff some OTHER method serves the request and the keys written are exactly those; otherwise the no-route handler runs; every lazy lookup of the "
          "Allow loops is made with the request's own host and escaped path. NOT proved, bounded only: the byte content of the header value and the response status - the stand-in "
          "standins/allow_test.go compares both with the documented answer for every unserved request of a 20-request probe list (including escaped paths, CONNECT, OPTIONS *) over all "
          "sets of <=2 (quick) / <=3 (thorough) registrations from 13 (method, pattern) pairs and all 8 combinations of auto-OPTIONS / 405 / ignore-trailing-slash. Not decided: the handlers' bodies."),
    design_ref="DESIGN.md section 4 C11, section 9",
    note=TRUSTED + " Assumed: the contract of (*iTree).lookup, strings.Builder Len/WriteString over ghost length, method root keys are non-empty (precondition root-keys).")

CLAIMS["C16"] = dict(
    technique="contract-based: noalloc clauses (allocation pointer unchanged) on the dispatch path + effect clause decided by call-graph closure over the compiler's escape analysis + bounded stand-in (measured allocations)",
    text=("Reduced claim, three parts. (1) Proved by SMT, path-sensitively: in ServeHTTP the allocation pointer of the verifier's memory model is unchanged between entry and the handler call "
          "on the direct-match and ignored-trailing-slash paths (getRoot, context reset and recorder reset carry a checked `noalloc` clause; pool Get/Put and the tree lookup are assumed noalloc), so "
          "e.g. a CleanPath or builder use moved onto those paths fails. (2) Effect clause `(*iTree).lookup : noalloc`: over the static call-graph closure of the lookup inside the module "
          "(roots.lookup, lookupByPath, lookupByDomain, edge search, StripHostPort, skipped-node stack) the Go compiler's escape analysis (go build -gcflags=-m, run on every check) reports no value "
          "escaping or moved to the heap, and the SSA has no string concatenation, string/slice conversion, map or channel creation; copyWithResize is excepted (grows only beyond capacity) "
          "and append is assumed to stay within the pre-sized buffers. (3) NOT proved, bounded: measured allocations (testing.AllocsPerRun) are 0 for every served request over all route "
          "sets of <=2 (quick) / <=3 (thorough) patterns of a 20-pattern pool, which is what detects a leaked pooled context or an under-sized buffer."),
    design_ref="DESIGN.md section 4 C16, section 9, section 10",
    note=TRUSTED + " Assumed: sync.Pool returns recycled objects in steady state; append within capacity; dynamic calls (handlers) are outside the router; the compiler's -m diagnostics are complete for heap escapes.")

CLAIMS["C15"] = dict(
    technique="contract-based deductive verification of the recovery function over ghost panic/log/writer state, table audit of the credential header list, SMT",
    text=("Proved for every recovered value and handler behaviour (recovery, partial correctness; recover() returns the value in flight and clears it): nothing in flight - nothing logged, "
          "nothing written; a value that is an error wrapping http.ErrAbortHandler is re-raised unchanged before anything is logged or written, and only such a value is re-raised; "
          "every other value is contained (the function returns normally), exactly one ERROR record is logged, and the recovery handler runs - with the same value - exactly when the "
          "writer reports nothing written and the value is not a broken connection; otherwise no response status or body byte is written; a flush counts as a started response "
          "(FlushError forwards the header first, C14). The Recovery middleware closure calls the next handler exactly once. Redaction: the yield function of the request dump writes a "
          "header line unchanged only when isBlacklistedHeader(name) is false, and writes the name alone otherwise; isBlacklistedHeader(name) is true iff name equals a table entry "
          "ignoring ASCII case (loop invariant); the table, read from the source on every run, contains all six names the property lists. A panic inside Updates/View: the deferred "
          "function aborts, releases the lock, publishes nothing and re-raises the same value (C04). This exposed a genuine defect (case-sensitive redaction), repaired. "
          "Not decided: the text of the log record beyond which Write calls happen, DumpRequest's format, connIsBroken's string matching, handler panics while the response is streaming."),
    design_ref="DESIGN.md section 4 C15, section 9",
    note=TRUSTED + " Assumed contracts: errors.Is, strings.EqualFold as ASCII folding, httputil.DumpRequest/bytes.Cut/iterutil.SplitBytesSeq as pure, running the iterator only calls the yield function, slog Logger.Error records one entry, Context/ResponseWriter observers.")

# ---- third session: additions to the claim texts (the earlier texts stay as they are)
CLAIMS["C01"]["text"] += (" Added: at every walk head a recording walk has exactly as many recorded parameters as its parameter counter (so a backtrack that does not truncate, or a "
    "reset hoisted out of the retry loop, fails a named invariant), and a recording lookup starts from an empty list (proved at ServeHTTP, Lookup, Txn.Lookup after their resets and at "
    "both sub-walk sites); the first trailing-slash candidate found is kept (the candidate is assigned only while there is none, the flag is raised once, tsr <==> candidate != nil); "
    "every sub-context taken from the pool is put back on every path; ServeHTTP's dispatch postconditions (which route, tsr flag, scope, no stale route/parameters in the special handlers) "
    "are checked under C01 as well. Node well-formedness no longer demands 'childless nodes are leaves' of the per-method root nodes (the earlier form was unsatisfiable on a fresh router); "
    "newNode is verified to label every edge with the first byte of its child's key.")
CLAIMS["C02"]["text"] += (" Added: classify's internal-error panic is unreachable (its precondition - counters within the path and the key - is ensured by copyOnWriteSearch and proved at every "
    "call in insert/update/remove); newNode, newNodeFromRef, updateEdge, updateRoot, removeRoot, recreateParentEdge are verified for their own safety under stated preconditions "
    "(children exist and have non-empty keys; the node has an edge for the new child's first byte; the node left out is a child); a panic inside a Router write helper leaves the lock released and nothing published.")
CLAIMS["C02"]["note"] += " Still partial (safety assumed): insert, update, remove, truncate, copyOnWriteSearch - see DESIGN.md section 9.8 for why."
CLAIMS["C03"]["text"] += (" Added: the frame condition of the children arrays is also obliged right after every call that writes them (cut points), so a write into a shared array fails at the call that makes it.")
CLAIMS["C04"]["text"] += (" Added: exceptional exits - a panic raised inside Router.Handle/HandleRoute/Update/UpdateRoute/Delete (route options and middleware constructors run under the writer lock), "
    "inside the function handed to Updates or to View: the deferred Abort/closure runs, the lock is released, nothing is published (obligations on-panic@call:...released).")
CLAIMS["C05"]["text"] += (" Added: commit, txn, snapshot and clone of the tree transaction are checked under C05 too (a commit that returns the old tree fails `fresh(result)`); the on-panic clauses of C04.")
CLAIMS["C06"]["text"] += (" Added: the iterator methods Iter.Methods/Routes/Reverse/Prefix/All (whose loop bodies run between yields) reach no lock, TryLock included.")
CLAIMS["C08"]["text"] += (" Added: among several trailing-slash candidates the first one found is kept (assertions before every assignment to the candidate node and to the flag in both walks) - "
    "this decides a four-route case the bounded stand-in is too small for; copyWithResize copies the entry values of the parameters into the tsr buffer.")
CLAIMS["C09"]["text"] += (" Added: the path sub-walk of a hostname route starts only when the whole host has been consumed by whole node keys (assert@call:lookupByPath#1.whole-host): "
    "a route for h.com is never entered for h.com.evil.org or h.comx, for every tree and host.")
CLAIMS["C10"]["text"] += (" Added: parseWildcard's contract (one entry per '{', ends inside the fragment) is checked under C10 as well: extraction must agree with what parseRoute accepts.")
CLAIMS["C10"]["text"] += (" The configured limits: New puts the defaults (65535) in place before the first option runs and hands on exactly what the options left; "
    "WithMaxRouteParams / WithMaxRouteParamKeyBytes store the value given, zero included.")
CLAIMS["C11"]["text"] += (" Added: the context-hygiene clauses of the walks (the stack of saved alternatives only holds valid entries, a lazy walk never grows or resurrects the parameter list, "
    "the parameter counter never exceeds the recorded list) are checked under C11 as well - the Allow loops run lazy lookups on the request's own context.")
CLAIMS["C12"]["text"] += (" Added: pool balance - ServeHTTP puts its context back on every path, Lookup and CloneWith hand out exactly one live context, Close returns it; copyWithResize "
    "resizes the destination to the source's length and copies every entry (a recycled buffer that keeps a longer tail fails `len(*dst) == len(*src)`); CloneWith, copyWithResize are verified for safety (no longer partial).")
CLAIMS["C15"]["text"] += (" Added: the single-operation helpers Handle/HandleRoute/Update/UpdateRoute/Delete release the writer lock and publish nothing when a route option or middleware constructor panics "
    "(exceptional postcondition, checked with the deferred Abort run on the panic path); Updates/View likewise, including that the abort-and-re-raise closure is registered before fn runs.")
CLAIMS["C16"]["text"] += (" Added (deductive): every context or sub-context taken from the tree's pool is returned on every path of the walks, ServeHTTP, Route and Reverse (ghost counter on sync.Pool.Get/Put); "
    "copyWithResize never shrinks the capacity of the recycled buffer and allocates nothing when the source fits. Measured allocations remain the bounded stand-in.")
CLAIMS["C18"]["text"] += (" Added: isIPContainedInRanges is exactly 'some entry of the table contains the address' (loop invariant); Context.ClientIP returns the answer of exactly one resolver for this call "
    "(nothing remembered between calls on a pooled context).")
CLAIMS["C19"]["text"] += (" Added: ServeHTTP's dispatch postconditions (no route in the redirect and the other special handlers, whatever the recycled context carried) are checked under C19.")
CLAIMS["C20"]["text"] += (" Added: Context.ClientIP (which resolver answers) and ServeHTTP's 'special handlers see no route' postconditions are checked under C20: the client-IP cell of the redirect handler cannot pick up a previous request's route.")

NOT_APPLICABLE = {
    "C01": "only edge search and method index are under contract so far; matcher mechanisms not yet (DESIGN.md section 4 C01)",
    "C02": "not yet under contract in this revision (counters/guards planned, DESIGN.md §4 C02)",
    "C03": "not yet under contract in this revision (ownership frame planned, DESIGN.md §4 C03)",
    "C04": "not yet under contract in this revision (typestate planned, DESIGN.md §4 C04)",
    "C05": "schedules are outside contract reach; sequential publication protocol not yet under contract in this revision",
    "C06": "effect clauses not yet built in this revision (DESIGN.md §4 C06)",
    "C07": "relational over pairs of histories: a contract constrains one call of one router, and the canonical-form route (lookups as functions of a canonical tree) needs the functional correctness of the walk that C01 leaves bounded (DESIGN.md section 5). The bounded stand-ins of C01 (two insertion orders per route set) and C02 (operation sequences against a map) exercise history independence on their bounded spaces, but no check is registered for C07 and nothing is claimed.",
    "C08": "not yet under contract in this revision beyond FixTrailingSlash (DESIGN.md §4 C08)",
    "C09": "not yet under contract in this revision (DESIGN.md §4 C09)",
    "C10": "not yet under contract in this revision (DESIGN.md §4 C10)",
    "C11": "not yet under contract in this revision (DESIGN.md §4 C11)",
    "C12": "only the reset variants are under contract so far (DESIGN.md section 4 C12)",
    "C13": "not yet under contract in this revision (DESIGN.md §4 C13)",
    "C14": "not yet under contract in this revision (DESIGN.md §4 C14)",
    "C15": "not yet under contract in this revision (DESIGN.md §4 C15)",
    "C16": "only an effect clause is expressible; not yet built in this revision (DESIGN.md §4 C16)",
    "C18": "not yet under contract in this revision (DESIGN.md §4 C18)",
    "C19": "not yet under contract in this revision (DESIGN.md §4 C19)",
    "C20": "not yet under contract in this revision beyond `level` (DESIGN.md §4 C20)",
}


def main():
    hooks = subprocess.run(["git", "-C", "/repo", "log", "--format=%H %s"], capture_output=True, text=True).stdout.splitlines()
    hook_commits = [l.split()[0] for l in hooks if l.split(" ", 1)[1].startswith("verif:")]
    checks = []
    for pid in sorted(CLAIMS):
        c = CLAIMS[pid]
        checks.append({
            "property_id": pid,
            "quick_cmd": f"./bin/check {pid} quick",
            "thorough_cmd": f"./bin/check {pid} thorough",
            "evidence_file": f"/verif/evidence/{pid}.json",
            "replay_cmd_template": "./bin/check --replay {path}",
            "engine": "foxvc",
            "level_claimed": {"category": c.get("category", "proof"), "text": c["text"], "design_ref": c["design_ref"]},
            "level_note": c["note"],
            "technique": c["technique"],
        })
    m = {
        "version": 1,
        "setup_cmd": "./bin/setup",
        "hooks": {
            "guard": "verif",
            "enable": "go build -tags=verif (contract files verif_contracts*.go contain only a build constraint, a package clause and //@ comments)",
            "baseline_off_cmd": "cd /repo && GOFLAGS=-mod=mod GOPROXY=off go test -vet=off -count=1 ./...",
            "source_commits": hook_commits,
            "add_only": True,
        },
        "engines": [{
            "name": "foxvc", "path": "/verif/foxvc",
            "serves_properties": sorted(CLAIMS),
            "kind_free_text": "deductive verifier written for this task: go/packages+go/ssa (naive form) -> passive reachability encoding -> one SMT-LIB query per obligation -> z3 4.8 / z3 5.1 / cvc5 race; contracts are //@ comments in /repo/**/verif_contracts*.go",
        }],
        "checks": checks,
        "not_applicable": [{"property_id": k, "reason": v} for k, v in sorted(NOT_APPLICABLE.items()) if k not in CLAIMS],
        "notes": "See DESIGN.md. Every check rebuilds from /repo's working tree (packages.Load on every run).",
    }
    with open(os.path.join(HERE, "MANIFEST.json"), "w") as f:
        json.dump(m, f, indent=1)
        f.write("\n")


if __name__ == "__main__":
    main()
