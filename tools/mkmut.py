#!/usr/bin/env python3
"""usage: mkmut.py <name> <prop> <file> <old> <new> [note]  -- creates selftest/mutants/<name>/patch.diff (repo must be clean)"""
import sys, subprocess, os, json
name, prop, f, old, new = sys.argv[1:6]
note = sys.argv[6] if len(sys.argv) > 6 else ""
if subprocess.run(["git", "-C", "/repo", "status", "--porcelain"], capture_output=True, text=True).stdout.strip():
    sys.exit("repo dirty: commit contract edits first")
path = os.path.join("/repo", f)
s = open(path).read()
assert s.count(old) >= 1, "pattern not found"
occ = int(os.environ.get("OCC", "1"))
idx = -1
for _ in range(occ):
    idx = s.index(old, idx + 1)
s2 = s[:idx] + new + s[idx + len(old):]
open(path, "w").write(s2)
d = f"/verif/selftest/mutants/{name}"
os.makedirs(d, exist_ok=True)
diff = subprocess.run(["git", "-C", "/repo", "diff"], capture_output=True, text=True).stdout
open(f"{d}/patch.diff", "w").write(diff)
json.dump({"property": prop, "note": note}, open(f"{d}/meta.json", "w"))
subprocess.run(["git", "-C", "/repo", "checkout", "--", "."])
print("created", d)
