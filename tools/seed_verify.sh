#!/bin/bash
# usage: seed_verify.sh <worktree> <i> <prop> <name>
# Confirms in the scratch worktree: patch applied => suite green and demo fails; reverted => demo passes.
# Then stores the change under /verif/seeded/<name>/.
WT="$1"; I="$2"; PROP="$3"; NAME="$4"
export GOFLAGS=-mod=mod GOPROXY=off
SRC="$WT/out/$I"
[ -f "$SRC/patch.diff" ] || { echo "no patch"; exit 2; }
TMP=$(mktemp -d /root/scratch.XXXX)
cp -r "$SRC" "$TMP/src"
mv "$WT/out" "$TMP/out.aside"
cd "$WT" && git checkout -q -- . && git apply "$TMP/src/patch.diff" || { echo "patch does not apply"; mv "$TMP/out.aside" "$WT/out"; exit 2; }
go build ./... || { echo "BUILD FAILS"; }
SUITE=$(go test -vet=off -count=1 ./... 2>&1 | grep -c "^FAIL\|^--- FAIL")
cp "$TMP/src/demo_test.go" zz_demo_test.go
TEST=$(grep -o "func TestDemo[A-Za-z0-9_]*" zz_demo_test.go | head -1 | sed 's/func //')
go test -vet=off -count=1 -run "^$TEST\$" . > "$TMP/demo_mut.log" 2>&1; DEMO_MUT=$?
git checkout -q -- . 
go test -vet=off -count=1 -run "^$TEST\$" . > "$TMP/demo_clean.log" 2>&1; DEMO_CLEAN=$?
rm -f zz_demo_test.go
mv "$TMP/out.aside" "$WT/out"
echo "suite_failures=$SUITE demo_with_patch_exit=$DEMO_MUT demo_clean_exit=$DEMO_CLEAN test=$TEST"
if [ "$SUITE" = "0" ] && [ "$DEMO_MUT" != "0" ] && [ "$DEMO_CLEAN" = "0" ]; then
  D=/verif/seeded/$NAME; mkdir -p $D
  cp "$TMP/src/patch.diff" "$TMP/src/demo_test.go" $D/
  [ -f "$TMP/src/README.md" ] && cp "$TMP/src/README.md" $D/
  python3 - "$D" "$PROP" "$TEST" <<'PY'
import json,sys,os
d,prop,test=sys.argv[1:4]
readme=open(os.path.join(d,'README.md')).read() if os.path.exists(os.path.join(d,'README.md')) else ''
json.dump({"property":prop,"demo_test":test,"needs_to_manifest":readme[:1500],
 "confirmed":"in a scratch worktree of /repo: with the patch the full suite (go test ./...) is green and the demo fails; without it the demo passes",
 "source":"independent sub-agent given only the property text"},open(os.path.join(d,'meta.json'),'w'),indent=1)
PY
  echo "KEPT $D"
else
  echo "REJECTED"
fi
rm -rf "$TMP"
