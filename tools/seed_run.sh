#!/bin/bash
# usage: seed_run.sh <name> [props...]   -- applies /verif/seeded/<name>/patch.diff to /repo, runs the checks, reverts
NAME="$1"; shift
D=/verif/seeded/$NAME
PROPS="$@"; [ -z "$PROPS" ] && PROPS=$(python3 -c "import json;print(json.load(open('$D/meta.json'))['property'])")
cd /repo || exit 2
[ -n "$(git status --porcelain)" ] && { echo "repo dirty"; exit 2; }
git apply "$D/patch.diff" || { echo "patch does not apply"; exit 2; }
for P in $PROPS; do
  cd /verif && timeout 900 ./bin/check $P quick > /tmp/seed.$NAME.$P.out 2>&1; rc=$?
  echo "$NAME $P exit=$rc $(grep -c '^FAILED' /tmp/seed.$NAME.$P.out) failed: $(grep '^FAILED' /tmp/seed.$NAME.$P.out | head -3 | sed 's/FAILED obligation //' | tr '\n' ';')"
done
git -C /repo checkout -- .
