package fox

// Bounded validation of ASSUMED contracts: the clauses that foxvc/externs/*.spec and the `extern` blocks of the
// contract files assume about standard-library functions are evaluated against the real functions on an
// exhaustively enumerated bounded space of inputs (all strings of length <= 4 over a small alphabet, plus a list of
// longer samples).  This does not turn an assumption into a proof; it guards against an assumed clause that is
// simply wrong.  Each check below quotes the clause it transcribes.
//
// This file is NOT part of the repository: the check injects it with `go test -overlay`.
// It is labelled *bounded* everywhere it is reported and is never counted as proved.

import (
	"bytes"
	"encoding/json"
	"errors"
	"fmt"
	"net"
	"net/url"
	"path"
	"strings"
	"testing"
)

type externStats struct {
	Inputs      int      `json:"inputs"`
	Evaluations int      `json:"clause_evaluations"`
	Clauses     int      `json:"clauses"`
	Distinct    int      `json:"distinct_outcomes"`
	Mismatches  []string `json:"mismatches"`
	Space       string   `json:"space"`
	Exhaustive  bool     `json:"exhaustive"`
	SampleCases []string `json:"samples"`
}

func TestFoxvcStandinExterns(t *testing.T) {
	st := &externStats{Exhaustive: true}
	alphabet := []byte{'a', '.', ':', '/', '{', '[', ']', '%', 'A'}
	var inputs []string
	var rec func(cur []byte)
	rec = func(cur []byte) {
		inputs = append(inputs, string(cur))
		if len(cur) == 4 {
			return
		}
		for _, c := range alphabet {
			rec(append(cur[:len(cur):len(cur)], c))
		}
	}
	rec(nil)
	inputs = append(inputs, "example.com:8080", "example.com.", "example.com.:80", "[::1]:80", "[::1]", "::1", "a.b.c:", "/a/b/c/", "/a//b", "///", "/https:evil.com/", "X-CSRF-Token", "x-csrf-token", "Proxy-Authorization")
	st.Inputs = len(inputs)
	st.Space = fmt.Sprintf("all strings of length <= 4 over %q (%d) and %d longer samples; two-argument functions over all pairs of the strings of length <= 2", string(alphabet), len(inputs)-14, 14)
	bad := func(clause, format string, a ...interface{}) {
		if len(st.Mismatches) < 40 {
			st.Mismatches = append(st.Mismatches, clause+": "+fmt.Sprintf(format, a...))
		}
	}
	seen := map[string]bool{}
	note := func(k string) {
		if !seen[k] {
			seen[k] = true
			st.Distinct++
		}
	}
	var small []string
	for _, s := range inputs {
		if len(s) <= 2 {
			small = append(small, s)
		}
	}
	st.Clauses = 14
	for _, s := range inputs {
		for _, c := range alphabet {
			// strings.IndexByte: -1 <= r < len(s); r >= 0 ==> s[r] == c && no earlier c; r < 0 ==> no c
			r := strings.IndexByte(s, c)
			st.Evaluations++
			ok := -1 <= r && r < len(s)
			if r >= 0 {
				ok = ok && s[r] == c && !strings.Contains(s[:r], string(c))
			} else {
				ok = ok && !strings.Contains(s, string(c))
			}
			if !ok {
				bad("strings.IndexByte", "s=%q c=%q r=%d", s, c, r)
			}
			// strings.LastIndexByte: -1 <= r < len(s); r >= 0 ==> s[r] == c; no c after r
			r = strings.LastIndexByte(s, c)
			st.Evaluations++
			ok = -1 <= r && r < len(s) && (r < 0 || s[r] == c)
			for i := r + 1; i < len(s); i++ {
				ok = ok && s[i] != c
			}
			if !ok {
				bad("strings.LastIndexByte", "s=%q c=%q r=%d", s, c, r)
			}
			// bytes.IndexByte: -1 <= r < len(b) && (r >= 0 ==> b[r] == c)
			r = bytes.IndexByte([]byte(s), c)
			st.Evaluations++
			if !(-1 <= r && r < len(s) && (r < 0 || s[r] == c)) {
				bad("bytes.IndexByte", "s=%q c=%q r=%d", s, c, r)
			}
			// strings.Contains with a one-byte substring: result <==> exists i: s[i] == substr[0]
			st.Evaluations++
			if strings.Contains(s, string(c)) != (strings.IndexByte(s, c) >= 0) {
				bad("strings.Contains", "s=%q c=%q", s, c)
			}
		}
		// path.Base: len(result) >= 1 && (len(result) > 1 ==> no '/' in result)
		b := path.Base(s)
		st.Evaluations++
		note("base|" + fmt.Sprint(len(b) > 1))
		if !(len(b) >= 1 && (len(b) == 1 || !strings.Contains(b, "/"))) {
			bad("path.Base", "p=%q result=%q", s, b)
		}
		// net.SplitHostPort: exactly one ':' and no brackets ==> err == nil, host == s[:j], port == s[j+1:]
		if j := strings.IndexByte(s, ':'); j >= 0 && strings.Count(s, ":") == 1 && !strings.ContainsAny(s, "[]") {
			h, p, err := net.SplitHostPort(s)
			st.Evaluations++
			if err != nil || h != s[:j] || p != s[j+1:] {
				bad("net.SplitHostPort", "s=%q host=%q port=%q err=%v", s, h, p, err)
			}
		}
		// (*url.URL).EscapedPath of a URL whose Path is non-empty: len(result) >= 1
		if len(s) > 0 {
			u := &url.URL{Path: s}
			st.Evaluations++
			if len(u.EscapedPath()) < 1 {
				bad("url.EscapedPath", "path=%q", s)
			}
		}
		// net.ParseIP / IP.IsUnspecified are pure (same answer twice)
		st.Evaluations++
		if ip1, ip2 := net.ParseIP(s), net.ParseIP(s); (ip1 == nil) != (ip2 == nil) || (ip1 != nil && ip1.IsUnspecified() != ip2.IsUnspecified()) {
			bad("net.ParseIP", "s=%q", s)
		}
		for _, t2 := range small {
			// strings.HasPrefix / HasSuffix: result <==> len(s) >= len(p) && s[:len(p)] == p (resp. the tail)
			st.Evaluations += 3
			if strings.HasPrefix(s, t2) != (len(s) >= len(t2) && s[:len(t2)] == t2) {
				bad("strings.HasPrefix", "s=%q p=%q", s, t2)
			}
			if strings.HasSuffix(s, t2) != (len(s) >= len(t2) && s[len(s)-len(t2):] == t2) {
				bad("strings.HasSuffix", "s=%q p=%q", s, t2)
			}
			// strings.TrimSuffix: has the suffix ==> s[:len(s)-len(suffix)], otherwise s
			want := s
			if len(s) >= len(t2) && s[len(s)-len(t2):] == t2 {
				want = s[:len(s)-len(t2)]
			}
			if strings.TrimSuffix(s, t2) != want {
				bad("strings.TrimSuffix", "s=%q suffix=%q", s, t2)
			}
		}
		// strings.EqualFold on header names is ASCII case folding (the reading the C15 table audit relies on)
		for _, name := range []string{"Authorization", "Proxy-Authorization", "Cookie", "Set-Cookie", "X-CSRF-Token", "X-Vault-Token"} {
			for _, v := range []string{name, strings.ToLower(name), strings.ToUpper(name), name + "x", s} {
				st.Evaluations++
				asciiEq := len(v) == len(name)
				for i := 0; asciiEq && i < len(v); i++ {
					a, b := v[i], name[i]
					if 'A' <= a && a <= 'Z' {
						a += 32
					}
					if 'A' <= b && b <= 'Z' {
						b += 32
					}
					asciiEq = a == b
				}
				if strings.EqualFold(v, name) != asciiEq {
					bad("strings.EqualFold", "%q vs %q", v, name)
				}
			}
		}
	}
	// errors.Join: some argument non-nil ==> result non-nil ; fmt.Errorf("%w: ...", e): errors.Is(result, e)
	e1 := errors.New("e1")
	st.Evaluations += 4
	if errors.Join(nil, e1) == nil || errors.Join(e1, nil) == nil || errors.Join(nil, nil) != nil {
		bad("errors.Join", "nil handling")
	}
	if w := fmt.Errorf("%w: detail", e1); w == nil || !errors.Is(w, e1) || !errors.Is(e1, e1) {
		bad("fmt.Errorf/errors.Is", "wrapping")
	}
	st.SampleCases = []string{`strings.IndexByte("a.:/", ':') == 2`, `path.Base("/a/b/c/") == "c"`, `net.SplitHostPort("a.b.c:") == ("a.b.c", "", nil)`, `strings.EqualFold("x-csrf-token", "X-CSRF-Token") == true`}
	out, _ := json.Marshal(st)
	fmt.Printf("STANDIN %s\n", out)
	for _, m := range st.Mismatches {
		t.Errorf("MISMATCH %s", m)
	}
}
