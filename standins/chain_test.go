package fox

// Bounded cross-check of the abstraction used by the C13 contracts: there, applying a middleware is an
// uninterpreted function app(m, h) and the proved statement is "the handler installed for a scope is
// chain(mws, scope, h)".  Here the real router is run and the ORDER in which middleware and handlers actually
// execute is recorded, for every assignment of scopes to three global middleware (each of 7 scope sets), zero to
// two route middleware, and the five kinds of handler (route, no-route, no-method, redirect, options), and compared
// with the documented order: the global middleware whose scope includes the handler kind, in registration order,
// then the route middleware, then the handler; Route.Handle runs the bare handler and Route.HandleMiddleware only
// the route middleware.
//
// This file is NOT part of the repository: the check injects it with `go test -overlay`.
// It is labelled *bounded* everywhere it is reported and is never counted as proved.

import (
	"encoding/json"
	"fmt"
	"net/http"
	"net/http/httptest"
	"strings"
	"testing"
)

type chainStats struct {
	Configs     int      `json:"configurations"`
	Requests    int      `json:"requests"`
	Distinct    int      `json:"distinct_outcomes"`
	Mismatches  []string `json:"mismatches"`
	Space       string   `json:"space"`
	Exhaustive  bool     `json:"exhaustive"`
	SampleCases []string `json:"samples"`
}

func TestFoxvcStandinChain(t *testing.T) {
	st := &chainStats{Exhaustive: true}
	seen := map[string]bool{}
	scopes := []HandlerScope{AllHandlers, RouteHandler, NoRouteHandler, NoMethodHandler, RedirectHandler, OptionsHandler, RouteHandler | NoMethodHandler}
	st.Space = fmt.Sprintf("three global middleware, each with one of %d scope sets (%d assignments), 0..2 route middleware, 5 handler kinds + Route.Handle + Route.HandleMiddleware", len(scopes), len(scopes)*len(scopes)*len(scopes))
	var trace []string
	mw := func(name string) MiddlewareFunc {
		return func(next HandlerFunc) HandlerFunc {
			return func(c Context) {
				trace = append(trace, name)
				next(c)
			}
		}
	}
	report := func(format string, a ...interface{}) {
		if len(st.Mismatches) < 40 {
			st.Mismatches = append(st.Mismatches, fmt.Sprintf(format, a...))
		}
	}
	for a := range scopes {
		for b := range scopes {
			for cc := range scopes {
				for nRoute := 0; nRoute <= 2; nRoute++ {
					sc := []HandlerScope{scopes[a], scopes[b], scopes[cc]}
					f, err := New(
						WithMiddlewareFor(sc[0], mw("g1")), WithMiddlewareFor(sc[1], mw("g2")), WithMiddlewareFor(sc[2], mw("g3")),
						WithNoMethod(true), WithAutoOptions(true), WithRedirectTrailingSlash(true),
						WithNoRouteHandler(func(c Context) { trace = append(trace, "h404") }),
						WithNoMethodHandler(func(c Context) { trace = append(trace, "h405") }),
						WithOptionsHandler(func(c Context) { trace = append(trace, "hopt") }),
					)
					if err != nil {
						t.Fatal(err)
					}
					var ropts []RouteOption
					var rnames []string
					for i := 0; i < nRoute; i++ {
						n := fmt.Sprintf("r%d", i+1)
						ropts = append(ropts, WithMiddleware(mw(n)))
						rnames = append(rnames, n)
					}
					rte, err := f.Handle(http.MethodGet, "/a/{x}", func(c Context) { trace = append(trace, "h") }, ropts...)
					if err != nil {
						t.Fatal(err)
					}
					// a second route created afterwards must not disturb the first one's chain
					if _, err := f.Handle(http.MethodPost, "/b", func(c Context) {}, WithMiddleware(mw("other"))); err != nil {
						t.Fatal(err)
					}
					st.Configs++
					want := func(kind HandlerScope, tail ...string) string {
						var w []string
						for i, s := range sc {
							if s&kind != 0 {
								w = append(w, fmt.Sprintf("g%d", i+1))
							}
						}
						return strings.Join(append(w, tail...), " ")
					}
					probes := []struct {
						name, method, path string
						want                string
					}{
						{"route", http.MethodGet, "/a/1", want(RouteHandler, append(append([]string{}, rnames...), "h")...)},
						{"no-route", http.MethodGet, "/zz", want(NoRouteHandler, "h404")},
						{"no-method", http.MethodDelete, "/a/1", want(NoMethodHandler, "h405")},
						{"options", http.MethodOptions, "/a/1", want(OptionsHandler, "hopt")},
						{"redirect", http.MethodGet, "/a/1/", want(RedirectHandler)},
					}
					for _, p := range probes {
						trace = trace[:0]
						f.ServeHTTP(httptest.NewRecorder(), httptest.NewRequest(p.method, p.path, nil))
						got := strings.Join(trace, " ")
						st.Requests++
						key := p.name + "|" + got
						if !seen[key] {
							seen[key] = true
							st.Distinct++
							if len(st.SampleCases) < 8 {
								st.SampleCases = append(st.SampleCases, fmt.Sprintf("scopes=%v route-mw=%d %s -> %q", sc, nRoute, p.name, got))
							}
						}
						if got != p.want {
							report("chain scopes=%v route-mw=%d %s %s %s: executed %q, documented %q", sc, nRoute, p.name, p.method, p.path, got, p.want)
						}
					}
					// Route.Handle: the bare handler; Route.HandleMiddleware: route middleware only
					c := NewTestContextOnly(httptest.NewRecorder(), httptest.NewRequest(http.MethodGet, "/a/1", nil))
					trace = trace[:0]
					rte.Handle(c)
					st.Requests++
					if got := strings.Join(trace, " "); got != "h" {
						report("chain route-mw=%d Route.Handle: executed %q, documented %q", nRoute, got, "h")
					}
					trace = trace[:0]
					rte.HandleMiddleware(c)
					st.Requests++
					if got, w := strings.Join(trace, " "), strings.Join(append(append([]string{}, rnames...), "h"), " "); got != w {
						report("chain route-mw=%d Route.HandleMiddleware: executed %q, documented %q", nRoute, got, w)
					}
				}
			}
		}
	}
	out, _ := json.Marshal(st)
	fmt.Printf("STANDIN %s\n", out)
	for _, m := range st.Mismatches {
		t.Errorf("MISMATCH %s", m)
	}
}
