package fox

// Bounded stand-in for the selection clause of C01 / C07 / C08 / C09 / C10 (routability):
// the real router is compared, on an exhaustively enumerated bounded space, with an
// executable transcription of the documented routing rules (a character trie walked
// depth first with the priority static < {param} < *{catch-all}).  This file is NOT
// part of the repository: the check injects it with `go test -overlay`.
//
// It is labelled *bounded* everywhere it is reported and is never counted as proved.

import (
	"encoding/json"
	"fmt"
	"net/http"
	"net/http/httptest"
	"os"
	"sort"
	"strings"
	"testing"
)

// ---------------------------------------------------------------- reference semantics

type specTok struct {
	kind byte // 's' static byte, 'p' {param}, 'c' *{catch-all}
	b    byte
	name string
}

func specTokens(pattern string) []specTok {
	var out []specTok
	for i := 0; i < len(pattern); {
		switch {
		case pattern[i] == '*' && i+1 < len(pattern) && pattern[i+1] == '{':
			j := strings.IndexByte(pattern[i:], '}') + i
			out = append(out, specTok{kind: 'c', name: pattern[i+2 : j]})
			i = j + 1
		case pattern[i] == '{':
			j := strings.IndexByte(pattern[i:], '}') + i
			out = append(out, specTok{kind: 'p', name: pattern[i+1 : j]})
			i = j + 1
		default:
			out = append(out, specTok{kind: 's', b: pattern[i]})
			i++
		}
	}
	return out
}

type specNode struct {
	static   map[byte]*specNode
	param    *specNode
	pname    string
	catchAll *specNode
	cname    string
	pattern  string // non-empty: a route ends here
}

func newSpecNode() *specNode { return &specNode{static: map[byte]*specNode{}} }

func (n *specNode) insert(pattern string) {
	cur := n
	for _, t := range specTokens(pattern) {
		switch t.kind {
		case 's':
			nx := cur.static[t.b]
			if nx == nil {
				nx = newSpecNode()
				cur.static[t.b] = nx
			}
			cur = nx
		case 'p':
			if cur.param == nil {
				cur.param = newSpecNode()
				cur.pname = t.name
			}
			cur = cur.param
		case 'c':
			if cur.catchAll == nil {
				cur.catchAll = newSpecNode()
				cur.cname = t.name
			}
			cur = cur.catchAll
		}
	}
	cur.pattern = pattern
}

type specParam struct{ k, v string }

// match walks the trie depth first: static byte, then {param}, then *{catch-all}.
// hostLen is the length of the host prefix of input (0 for path-only matching): inside it a
// parameter stops at '.', everywhere at '/'.  lastStatic reports whether the final byte of
// the input was consumed by a static edge.
func (n *specNode) match(input string, pos, hostLen int, ps []specParam, lastStatic bool) (string, []specParam, bool, bool) {
	if pos == len(input) {
		if n.pattern != "" {
			return n.pattern, ps, lastStatic, true
		}
		return "", nil, false, false
	}
	if nx := n.static[input[pos]]; nx != nil {
		if p, q, ls, ok := nx.match(input, pos+1, hostLen, ps, true); ok {
			return p, q, ls, true
		}
	}
	if n.param != nil {
		end := pos
		for end < len(input) && input[end] != '/' && !(end < hostLen && input[end] == '.') {
			end++
		}
		if end > pos {
			if p, q, ls, ok := n.param.match(input, end, hostLen, append(ps[:len(ps):len(ps)], specParam{n.pname, input[pos:end]}), false); ok {
				return p, q, ls, true
			}
		}
	}
	if n.catchAll != nil && pos >= hostLen {
		// every following '/' from left to right, the whole rest last
		for end := pos + 1; end <= len(input); end++ {
			if end < len(input) && input[end] != '/' {
				continue
			}
			if end == len(input) || true {
				if p, q, ls, ok := n.catchAll.match(input, end, hostLen, append(ps[:len(ps):len(ps)], specParam{n.cname, input[pos:end]}), false); ok {
					return p, q, ls, true
				}
			}
		}
	}
	return "", nil, false, false
}

type specResult struct {
	pattern string
	params  []specParam
	tsr     bool
}

type specRouter struct {
	host *specNode // patterns with a hostname
	path *specNode // path-only patterns
	n    int
	nh   int
}

func newSpecRouter(patterns []string) *specRouter {
	s := &specRouter{host: newSpecNode(), path: newSpecNode()}
	for _, p := range patterns {
		s.n++
		if p[0] == '/' {
			s.path.insert(p)
		} else {
			s.host.insert(p)
			s.nh++
		}
	}
	return s
}

func stripHost(h string) string {
	if i := strings.LastIndexByte(h, ':'); i >= 0 && !strings.Contains(h, "]") {
		h = h[:i]
	}
	return strings.TrimSuffix(h, ".")
}

// adjustedIn: the best route of one trie for the path with a trailing slash added (against a
// literal '/' of the pattern) or removed.
func adjustedIn(root *specNode, h, path string) (specResult, bool) {
	if path == "/" {
		return specResult{}, false
	}
	if strings.HasSuffix(path, "/") {
		if p, ps, _, ok := root.match(h+path[:len(path)-1], 0, len(h), nil, false); ok {
			return specResult{p, ps, true}, true
		}
		return specResult{}, false
	}
	if p, ps, ls, ok := root.match(h+path+"/", 0, len(h), nil, false); ok && ls {
		return specResult{p, ps, true}, true
	}
	return specResult{}, false
}

// selectRoute: the documented selection.  Hostname routes first: a direct match, else a
// trailing-slash action under the matching host; only then the path-only routes (direct, then
// trailing-slash action).
func (s *specRouter) selectRoute(host, path string) (specResult, bool) {
	host = stripHost(host)
	if s.nh > 0 && host != "" {
		if p, ps, _, ok := s.host.match(host+path, 0, len(host), nil, false); ok {
			return specResult{p, ps, false}, true
		}
		if r, ok := adjustedIn(s.host, host, path); ok {
			return r, true
		}
	}
	if p, ps, _, ok := s.path.match(path, 0, 0, nil, false); ok {
		return specResult{p, ps, false}, true
	}
	return adjustedIn(s.path, "", path)
}

// ---------------------------------------------------------------- the real router

type realResult struct {
	pattern string
	params  []specParam
	tsr     bool
	found   bool
}

func realLookup(f *Router, method, host, path string) realResult {
	req := httptest.NewRequest(method, "http://x"+path, nil)
	req.Host = host
	req.URL.Path = path
	w := httptest.NewRecorder()
	route, cc, tsr := f.Lookup(newResponseWriter(w), req)
	if route == nil {
		return realResult{}
	}
	defer cc.Close()
	var ps []specParam
	for p := range cc.Params() {
		ps = append(ps, specParam{p.Key, p.Value})
	}
	return realResult{route.Pattern(), ps, tsr, true}
}

func sameParams(a, b []specParam) bool {
	if len(a) != len(b) {
		return false
	}
	for i := range a {
		if a[i] != b[i] {
			return false
		}
	}
	return true
}

func substitute(pattern string, ps []specParam) string {
	var sb strings.Builder
	k := 0
	for _, t := range specTokens(pattern) {
		if t.kind == 's' {
			sb.WriteByte(t.b)
			continue
		}
		if k < len(ps) {
			sb.WriteString(ps[k].v)
		}
		k++
	}
	return sb.String()
}

// ---------------------------------------------------------------- enumeration

var standinPathPool = []string{
	"/", "/a", "/a/", "/ab", "/a/b", "/a/b/", "/{x}", "/{x}/", "/a/{x}", "/{x}/b", "/a{x}", "/{x}/{y}",
	"/*{w}", "/a/*{w}", "/*{w}/b", "/a/*{w}/b", "/{x}/*{w}", "/a/b/c", "/{x}/b/c", "/{x}/{y}/c",
}

var standinCorePool = []string{"/", "/a", "/a/", "/a/b", "/{x}", "/{x}/", "/a/{x}", "/a{x}", "/ab"}

// probeOverride replaces the request paths for one family of route sets
var probeOverride []string

// hostname routes with parameters in the path under overlapping hosts (a failed path sub-walk under a static
// host label followed by a match under a {param} label), and hostnames that end in a digit
var standinHostPathPool = []string{"a.b/{x}/foo", "{h}.b/{y}/bar", "/", "a.b/{x}/{z}/q", "n-3/", "{s}.w3/{x}", "/{x}/bar"}

var standinHostPathHosts = []string{"a.b", "c.b", "n-3", "n-3:80", "a.w3", "a.b", "x.w3."}

var standinHostPathProbes = []string{"/1/bar", "/1/foo", "/1/baz", "/", "/1/2/q", "/1"}

// the last two extend a complete hostname by a byte that sorts before '/' ('.' and '-'): the path child of a.b.com is then not its first edge
var standinDeepHostPool = []string{"a.b.com/", "a.{s}.com/", "{s}.{t}.com/", "/", "a.b.com/a", "{s}.{t}.com/a", "a.b.{u}/", "a.b.com.au/", "a.b.com-x.net/"}

var standinDeepHosts = []string{"a.b.com", "ax.c.com", "a.c.com", "x.y.com", "a.b.comx", "b.a.com", "a.b.org", "a.b.com:80", "x.b.com", "a.b.com.au", "a.b.com-x.net"}

var standinHostPool = []string{
	"h.com/", "h.com/a", "h.com/{x}", "{s}.com/a", "{s}.com/{x}", "a.{s}.com/", "h.com/a/", "{s}.h.com/a", "a{s}.com/b",
}

var standinPaths = []string{
	"/", "/a", "/a/", "/b", "/ab", "/abc", "/a/b", "/a/b/", "/b/a", "/b/b", "/a/b/c", "/b/b/c", "/a/c/b", "/a/b/c/",
	"/x/y/z/b", "/a/x/y/b", "/ax", "/a/a", "/c", "/c/", "/a/c", "/b/c/c", "/a/b/c/d",
}

var standinHosts = []string{"", "h.com", "h.com:80", "h.com.", "x.com", "a.x.com", "x.h.com", "h.com.evil.org", "h.comx", "xh.com", "ab.com", "a.com", "H.com", "X.com"}

type standinStats struct {
	RouteSets   int      `json:"route_sets"`
	Lookups     int      `json:"lookups"`
	Direct      int      `json:"direct_matches"`
	Tsr         int      `json:"tsr_outcomes"`
	Distinct    int      `json:"distinct_outcomes"`
	Mismatches  []string `json:"mismatches"`
	Space       string   `json:"space"`
	Exhaustive  bool     `json:"exhaustive"`
	SampleCases []string `json:"samples"`
}

func buildRouter(t *testing.T, patterns []string, opts ...GlobalOption) (*Router, []string) {
	f, err := New(opts...)
	if err != nil {
		t.Fatal(err)
	}
	var accepted []string
	for _, p := range patterns {
		if _, err := f.Handle(http.MethodGet, p, func(c Context) {}); err == nil {
			accepted = append(accepted, p)
		}
	}
	return f, accepted
}

// nodeWFViolations checks, on every node of the router's current tree, the well-formedness invariant that the
// contracts of lookupByPath / lookupByDomain ASSUME for every node in the heap (verif_contracts_walk.go, nodeWF).
func nodeWFViolations(f *Router) []string {
	var out []string
	cnt := func(key string, i int) int { return strings.Count(key[:i], "{") }
	seen := map[*node]bool{}
	roots := map[*node]bool{}
	var visit func(n *node, isRoot bool)
	visit = func(n *node, isRoot bool) {
		if n == nil || seen[n] {
			return
		}
		seen[n] = true
		bad := func(format string, a ...interface{}) {
			out = append(out, fmt.Sprintf("node %q: ", n.key)+fmt.Sprintf(format, a...))
		}
		if len(n.childKeys) != len(n.children) {
			bad("len(childKeys)=%d len(children)=%d", len(n.childKeys), len(n.children))
		}
		if n.paramChildIndex < -1 || n.paramChildIndex >= len(n.children) || n.wildcardChildIndex < -1 || n.wildcardChildIndex >= len(n.children) {
			bad("child indexes out of range")
		}
		if !isRoot && len(n.params) != cnt(n.key, len(n.key)) {
			bad("len(params)=%d, %d wildcards in key", len(n.params), cnt(n.key, len(n.key)))
		}
		for k, p := range n.params {
			if p.end == -1 {
				if k != len(n.params)-1 {
					bad("param %d has end -1 but is not the last", k)
				}
			} else if !(0 < p.end && p.end <= len(n.key) && cnt(n.key, p.end) == k+1) {
				bad("param %d end %d", k, p.end)
			}
		}
		if !isRoot && len(n.children) == 0 && n.route == nil {
			bad("no children and no route")
		}
		for p := 0; p < len(n.key) && !isRoot; p++ {
			if n.key[p] == '*' {
				if !(p+1 < len(n.key) && n.key[p+1] == '{') {
					bad("'*' at %d not followed by '{'", p)
					continue
				}
				k := cnt(n.key, p)
				if k < len(n.params) {
					if n.params[k].end >= 0 && n.inode == nil {
						bad("infix catch-all without inode")
					}
					if n.params[k].end == -1 && n.route == nil {
						bad("node ending in a catch-all is not a leaf")
					}
				}
			}
		}
		for _, c := range n.children {
			if c == nil {
				bad("nil child")
			}
			if roots[c] {
				bad("a per-method root node is the child of another node")
			}
			visit(c, false)
		}
		if n.inode != nil && roots[n.inode] {
			bad("a per-method root node is the inode of another node")
		}
		visit(n.inode, false)
	}
	for _, r := range f.getRoot().root {
		roots[r] = true
	}
	for _, r := range f.getRoot().root {
		visit(r, true)
	}
	return out
}

// deep backtracking family: several parameters recorded before the walk has to give up a branch
var standinDeepPool = []string{
	"/{a}/{b}/x/y/z1", "/{a}/{b}/{c}/y/z2", "/{a}/{b}/{c}/{d}/z3", "/{a}/x/{c}/y/z4", "/s/{b}/x/{d}/z5", "/{a}/{b}/*{w}/z6", "/{a}/{b}/x/*{w}", "/s/t/{c}/{d}/{e}",
}

func deepProbes(patterns []string) []string {
	seen := map[string]bool{}
	var out []string
	vals := []string{"1", "x", "s"}
	for _, p := range patterns {
		segs := strings.Split(p[1:], "/")
		var rec func(i int, cur []string)
		rec = func(i int, cur []string) {
			if i == len(segs) {
				q := "/" + strings.Join(cur, "/")
				if !seen[q] {
					seen[q] = true
					out = append(out, q)
				}
				return
			}
			if strings.HasPrefix(segs[i], "{") || strings.HasPrefix(segs[i], "*") {
				for _, v := range vals {
					rec(i+1, append(cur[:len(cur):len(cur)], v))
				}
				return
			}
			rec(i+1, append(cur[:len(cur):len(cur)], segs[i]))
		}
		rec(0, nil)
	}
	// cross probes: the tail of one pattern under the head of another
	for _, p := range patterns {
		for _, q := range patterns {
			a, b := strings.Split(p[1:], "/"), strings.Split(q[1:], "/")
			if len(a) == len(b) {
				mix := append(append([]string{}, a[:2]...), b[2:]...)
				for i := range mix {
					if strings.HasPrefix(mix[i], "{") || strings.HasPrefix(mix[i], "*") {
						mix[i] = "1"
					}
				}
				m := "/" + strings.Join(mix, "/")
				if !seen[m] {
					seen[m] = true
					out = append(out, m)
				}
			}
		}
	}
	return out
}

func checkSet(t *testing.T, st *standinStats, seen map[string]bool, patterns []string, hosts []string) {
	f, accepted := buildRouter(t, patterns)
	if len(accepted) == 0 {
		return
	}
	// the same set registered in the reverse order must route identically (C07)
	rev := make([]string, len(patterns))
	for i, p := range patterns {
		rev[len(patterns)-1-i] = p
	}
	f2, accepted2 := buildRouter(t, rev)
	sort.Strings(accepted2)
	acc := append([]string{}, accepted...)
	sort.Strings(acc)
	sameSet := strings.Join(acc, " ") == strings.Join(accepted2, " ")
	spec := newSpecRouter(accepted)
	st.RouteSets++
	for _, v := range append(nodeWFViolations(f), nodeWFViolations(f2)...) {
		if len(st.Mismatches) < 40 {
			st.Mismatches = append(st.Mismatches, fmt.Sprintf("node-wf routes=%q: %s", patterns, v))
		}
	}
	paths := standinPaths
	if strings.Count(patterns[0], "/") >= 5 {
		paths = deepProbes(accepted)
	}
	if probeOverride != nil {
		paths = probeOverride
	}
	// path-major order: consecutive probes differ in the host, so whatever a matching probe leaves in the
	// pooled context is seen by a probe for another host
	for _, path := range paths {
		for _, host := range hosts {
			st.Lookups++
			got := realLookup(f, http.MethodGet, host, path)
			key := fmt.Sprintf("%v|%v|%v", got.pattern, got.params, got.tsr)
			if !seen[key] {
				seen[key] = true
				st.Distinct++
			}
			report := func(kind, detail string) {
				if len(st.Mismatches) < 40 {
					st.Mismatches = append(st.Mismatches, fmt.Sprintf("%s routes=%q host=%q path=%q: %s", kind, accepted, host, path, detail))
				}
			}
			want, ok := spec.selectRoute(host, path)
			switch {
			case ok && !want.tsr:
				st.Direct++
				if !got.found || got.tsr || got.pattern != want.pattern {
					report("selection", fmt.Sprintf("want direct %s, got %+v", want.pattern, got))
				} else if !sameParams(got.params, want.params) {
					report("params", fmt.Sprintf("route %s: want %v, got %v", want.pattern, want.params, got.params))
				} else if sub := substitute(got.pattern, got.params); sub != stripHostIfPathOnly(got.pattern, host)+path {
					report("substitution", fmt.Sprintf("route %s params %v reproduce %q", got.pattern, got.params, sub))
				}
			case got.found && !got.tsr:
				report("selection", fmt.Sprintf("no route matches directly (documented outcome: %+v), got direct %s", want, got.pattern))
			case got.found && got.tsr:
				st.Tsr++
				// soundness and priority of a reported trailing-slash action; its absence where the
				// documented rules give one is the known sibling-dependent defect and is not compared
				if !ok {
					report("tsr", fmt.Sprintf("no route matches the slash-adjusted path, got tsr %s", got.pattern))
				} else if want.pattern != got.pattern {
					report("tsr-priority", fmt.Sprintf("want tsr %s, got %s", want.pattern, got.pattern))
				} else if !sameParams(want.params, got.params) {
					report("tsr-params", fmt.Sprintf("route %s: want %v, got %v", want.pattern, want.params, got.params))
				}
			}
			if sameSet {
				got2 := realLookup(f2, http.MethodGet, host, path)
				if got.pattern != got2.pattern || got.tsr != got2.tsr || !sameParams(got.params, got2.params) {
					report("history", fmt.Sprintf("insertion order changes the outcome: %+v vs %+v", got, got2))
				}
			}
			// the other entry points agree on the selection
			rr, rtsr := f.Reverse(http.MethodGet, host, path)
			if (rr != nil) != got.found || (rr != nil && (rr.Pattern() != got.pattern || rtsr != got.tsr)) {
				report("entry-points", fmt.Sprintf("Reverse disagrees with Lookup: %v/%v vs %+v", rr, rtsr, got))
			}
		}
	}
	if len(st.SampleCases) < 5 {
		st.SampleCases = append(st.SampleCases, fmt.Sprintf("routes=%q", accepted))
	}
}

func stripHostIfPathOnly(pattern, host string) string {
	if pattern != "" && pattern[0] == '/' {
		return ""
	}
	return stripHost(host)
}

func TestFoxvcStandinRouting(t *testing.T) {
	st := &standinStats{Exhaustive: true}
	seen := map[string]bool{}
	thorough := os.Getenv("FOXVC_TIER") == "thorough"
	maxSize := 2
	if thorough {
		maxSize = 3
	}
	st.Space = fmt.Sprintf("all route sets of <= %d patterns from a pool of %d path patterns (x %d request paths) and of <= 2 patterns from %d hostname+path patterns (x %d hosts x paths); all triples of the 9 core patterns; triples of the deep pool; two insertion orders", maxSize, len(standinPathPool), len(standinPaths), len(standinHostPool)+4, len(standinHosts))
	var rec func(pool []string, start int, cur []string, max int, hosts []string)
	rec = func(pool []string, start int, cur []string, max int, hosts []string) {
		if len(cur) > 0 {
			checkSet(t, st, seen, cur, hosts)
		}
		if len(cur) == max {
			return
		}
		for i := start; i < len(pool); i++ {
			rec(pool, i+1, append(cur[:len(cur):len(cur)], pool[i]), max, hosts)
		}
	}
	rec(standinPathPool, 0, nil, maxSize, []string{""})
	if !thorough {
		// every triple of the core patterns (the thorough tier covers all triples of the full pool)
		rec(standinCorePool, 0, nil, 3, []string{""})
	}
	mixed := append(append([]string{}, standinHostPool...), "/", "/a", "/{x}", "/a/")
	rec(mixed, 0, nil, 2, standinHosts)
	rec(standinDeepPool, 0, nil, 3, []string{""})
	// hostnames with several wildcards in one label sequence, static and wildcard labels competing in the
	// middle of the host, path-only fallback; the hosts are probed in a fixed order on one router, so state
	// left in the pooled contexts by one probe is seen by the next
	rec(standinDeepHostPool, 0, nil, 3, standinDeepHosts)
	probeOverride = standinHostPathProbes
	rec(standinHostPathPool, 0, nil, 3, standinHostPathHosts)
	probeOverride = nil
	out, _ := json.Marshal(st)
	fmt.Printf("STANDIN %s\n", out)
	for _, m := range st.Mismatches {
		t.Errorf("MISMATCH %s", m)
	}
}
