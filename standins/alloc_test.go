package fox

// Bounded stand-in for C16 (routing a matching request allocates nothing): the walk
// itself (lookupByPath / lookupByDomain) is outside the verifier's reach, and a leaked
// pooled context or a grown buffer is not an allocation *site* the effect closure can see.
// For every set of <= 2 (quick) / <= 3 (thorough) routes of a fixed pool and every request
// of a fixed probe list that the router serves (directly or through an ignored trailing
// slash), the steady-state allocation count of ServeHTTP, measured with
// testing.AllocsPerRun after a warm-up, must be 0.
//
// This file is NOT part of the repository: the check injects it with `go test -overlay`.
// It is labelled *bounded* everywhere it is reported and is never counted as proved.

import (
	"encoding/json"
	"fmt"
	"net/http"
	"net/http/httptest"
	"os"
	"testing"
)

type allocStats struct {
	RouteSets   int      `json:"route_sets"`
	Requests    int      `json:"requests_measured"`
	Skipped     int      `json:"requests_not_served_skipped"`
	Distinct    int      `json:"distinct_outcomes"`
	Mismatches  []string `json:"mismatches"`
	Space       string   `json:"space"`
	Exhaustive  bool     `json:"exhaustive"`
	SampleCases []string `json:"samples"`
}

type nullWriter struct{ h http.Header }

func (w *nullWriter) Header() http.Header         { return w.h }
func (w *nullWriter) Write(b []byte) (int, error) { return len(b), nil }
func (w *nullWriter) WriteHeader(int)             {}

var allocPathPool = []string{
	"/", "/a", "/a/b", "/{x}", "/a/{x}", "/{x}/b", "/a{x}", "/{x}/{y}", "/*{w}", "/a/*{w}", "/a/*{w}/b", "/*{w}/b",
	"/{x}/*{w}", "/{x}/{y}/c", "/a/{x}/", "/a/b/",
	"h.com/a", "{s}.com/{x}", "a.{s}.com/*{w}", "h.com/*{w}/b",
}

var allocCorePool = []string{"/a/*{w}", "/a/*{w}/b", "/a/{x}", "/{x}/b", "/a/{x}/", "/*{w}", "{s}.com/{x}", "h.com/*{w}/b"}

var allocPaths = []string{
	"/", "/a", "/a/", "/b", "/ab", "/a/b", "/a/b/", "/b/b", "/a/b/c", "/a/x/y", "/a/x/y/b", "/x/y/z/b", "/b/c/c", "/a/c", "/a/c/",
	"/a/./c", "/x//b",
}

var allocHosts = []string{"", "h.com", "x.com", "a.x.com", "h.com:80"}

func TestFoxvcStandinAlloc(t *testing.T) {
	st := &allocStats{Exhaustive: true}
	seen := map[string]bool{}
	thorough := os.Getenv("FOXVC_TIER") == "thorough"
	handler := func(c Context) {}
	w := &nullWriter{h: http.Header{}}
	checkSet := func(patterns []string, ignoreTS bool) {
		f, err := New(WithIgnoreTrailingSlash(ignoreTS))
		if err != nil {
			t.Fatal(err)
		}
		n := 0
		for _, p := range patterns {
			if _, err := f.Handle(http.MethodGet, p, handler); err == nil {
				n++
			}
		}
		if n == 0 {
			return
		}
		st.RouteSets++
		for _, host := range allocHosts {
			for _, path := range allocPaths {
				req := httptest.NewRequest(http.MethodGet, "http://x/", nil)
				req.Host = host
				req.URL.Path = path
				route, tsr := f.Reverse(http.MethodGet, host, path)
				if route == nil || (tsr && !route.IgnoreTrailingSlashEnabled()) {
					st.Skipped++
					continue
				}
				st.Requests++
				f.ServeHTTP(w, req) // warm-up: pooled contexts and buffers exist afterwards
				allocs := testing.AllocsPerRun(5, func() { f.ServeHTTP(w, req) })
				key := fmt.Sprintf("%s|%v|%v", route.Pattern(), tsr, allocs)
				if !seen[key] {
					seen[key] = true
					st.Distinct++
					if len(st.SampleCases) < 8 {
						st.SampleCases = append(st.SampleCases, fmt.Sprintf("routes=%q ignoreTS=%v host=%q path=%q -> %s tsr=%v allocs=%v", patterns, ignoreTS, host, path, route.Pattern(), tsr, allocs))
					}
				}
				// the same request through Lookup + Close (the context must go back to the pool it came from)
				rw := newResponseWriter(w)
				if rt, cc, _ := f.Lookup(rw, req); rt != nil {
					cc.Close()
					la := testing.AllocsPerRun(5, func() {
						if _, cc, _ := f.Lookup(rw, req); cc != nil {
							cc.Close()
						}
					})
					if la != 0 && len(st.Mismatches) < 40 {
						st.Mismatches = append(st.Mismatches, fmt.Sprintf("allocs-lookup routes=%q ignoreTS=%v host=%q path=%q: Lookup+Close of a request served by %s costs %v allocations per call, want 0", patterns, ignoreTS, host, path, route.Pattern(), la))
					}
				}
				if allocs != 0 && len(st.Mismatches) < 40 {
					st.Mismatches = append(st.Mismatches, fmt.Sprintf("allocs routes=%q ignoreTS=%v host=%q path=%q: served by %s (tsr=%v) with %v allocations per request, want 0", patterns, ignoreTS, host, path, route.Pattern(), tsr, allocs))
				}
			}
		}
	}
	var rec func(pool []string, start int, cur []string, max int)
	rec = func(pool []string, start int, cur []string, max int) {
		if len(cur) > 0 {
			checkSet(cur, false)
			checkSet(cur, true)
		}
		if len(cur) == max {
			return
		}
		for i := start; i < len(pool); i++ {
			rec(pool, i+1, append(cur[:len(cur):len(cur)], pool[i]), max)
		}
	}
	maxSize := 2
	if thorough {
		maxSize = 3
	}
	st.Space = fmt.Sprintf("all route sets of <= %d patterns from a pool of %d (path, catch-all with suffix siblings, hostname) and all triples of %d core patterns, with and without ignore-trailing-slash; %d hosts x %d paths; only requests the router serves are measured (AllocsPerRun, 5 runs after a warm-up)", maxSize, len(allocPathPool), len(allocCorePool), len(allocHosts), len(allocPaths))
	rec(allocPathPool, 0, nil, maxSize)
	if !thorough {
		rec(allocCorePool, 0, nil, 3)
	}
	out, _ := json.Marshal(st)
	fmt.Printf("STANDIN %s\n", out)
	for _, m := range st.Mismatches {
		t.Errorf("MISMATCH %s", m)
	}
}
