package fox

// Bounded stand-in for the map-equivalence clause of C02 (and the history clause of C07):
// which calls succeed, with which error, and what Has / Route / Len / Iter report afterwards
// depend on the tree's search and conflict rules, which the contracts only cover through the
// route counter.  Every sequence of <= 3 (quick) / <= 4 (thorough) operations
// Handle / Update / Delete over a fixed pool of patterns and two methods is run against the
// real router (alternating direct calls and one write transaction) and against a sequential
// map keyed by (method, pattern) with the documented conflict rule.
//
// This file is NOT part of the repository: the check injects it with `go test -overlay`.
// It is labelled *bounded* everywhere it is reported and is never counted as proved.

import (
	"encoding/json"
	"errors"
	"fmt"
	"net/http"
	"os"
	"sort"
	"strings"
	"testing"
)

type mmStats struct {
	Sequences   int      `json:"sequences"`
	Operations  int      `json:"operations"`
	Distinct    int      `json:"distinct_outcomes"`
	Mismatches  []string `json:"mismatches"`
	Space       string   `json:"space"`
	Exhaustive  bool     `json:"exhaustive"`
	SampleCases []string `json:"samples"`
}

// wildcardAt: the wildcard starting at p[i] ("{name}" -> 'p', "*{name}" -> 'c'), or kind 0.
func wildcardAt(p string, i int) (kind byte, name string, end int) {
	j := i
	kind = 'p'
	if j < len(p) && p[j] == '*' {
		kind = 'c'
		j++
	}
	if j >= len(p) || p[j] != '{' {
		return 0, "", i
	}
	k := strings.IndexByte(p[j:], '}')
	if k < 0 {
		return 0, "", i
	}
	return kind, p[j+1 : j+k], j + k + 1
}

// mmConflict: the two patterns declare a different wildcard of the same kind at the same position
// (after a byte-identical prefix).
func mmConflict(p, q string) bool {
	i := 0
	for i < len(p) && i < len(q) {
		kp, np, ep := wildcardAt(p, i)
		kq, nq, eq := wildcardAt(q, i)
		if kp != 0 && kq != 0 && kp == kq {
			if np != nq {
				return true
			}
			i = ep
			_ = eq
			continue
		}
		if p[i] != q[i] {
			return false
		}
		i++
	}
	return false
}

type mmOp struct {
	kind    byte // 'h' handle, 'u' update, 'd' delete
	method  string
	pattern string
}

func (o mmOp) String() string {
	return fmt.Sprintf("%c %s %s", o.kind, o.method, o.pattern)
}

var mmPool = []string{
	"/a", "/a/{x}", "/a/{y}", "/a/{x}/b", "/a/*{w}", "/a/*{v}", "/{x}", "/ab",
	"foo.{bar}.com/baz", "foo.{bar}/baz", "foo.{qux}/baz", "{s}.com/a", "h.com/a", "/ab/cd", "/ab/ce",
}

func mmErrKind(err error) string {
	switch {
	case err == nil:
		return "ok"
	case errors.Is(err, ErrRouteExist):
		return "exist"
	case errors.Is(err, ErrRouteNotFound):
		return "notfound"
	case errors.Is(err, ErrRouteConflict):
		return "conflict"
	case errors.Is(err, ErrInvalidRoute):
		return "invalid"
	}
	return "other:" + err.Error()
}

// (same check as in routing_test.go; the stand-ins are injected one file at a time)
// nodeWFViolations checks, on every node of the router's current tree, the well-formedness invariant that the
// contracts of lookupByPath / lookupByDomain ASSUME for every node in the heap (verif_contracts_walk.go, nodeWF).
func nodeWFViolations(f *Router) []string {
	var out []string
	cnt := func(key string, i int) int { return strings.Count(key[:i], "{") }
	seen := map[*node]bool{}
	roots := map[*node]bool{}
	var visit func(n *node, isRoot bool)
	visit = func(n *node, isRoot bool) {
		if n == nil || seen[n] {
			return
		}
		seen[n] = true
		bad := func(format string, a ...interface{}) {
			out = append(out, fmt.Sprintf("node %q: ", n.key)+fmt.Sprintf(format, a...))
		}
		if len(n.childKeys) != len(n.children) {
			bad("len(childKeys)=%d len(children)=%d", len(n.childKeys), len(n.children))
		}
		if n.paramChildIndex < -1 || n.paramChildIndex >= len(n.children) || n.wildcardChildIndex < -1 || n.wildcardChildIndex >= len(n.children) {
			bad("child indexes out of range")
		}
		if !isRoot && len(n.params) != cnt(n.key, len(n.key)) {
			bad("len(params)=%d, %d wildcards in key", len(n.params), cnt(n.key, len(n.key)))
		}
		for k, p := range n.params {
			if p.end == -1 {
				if k != len(n.params)-1 {
					bad("param %d has end -1 but is not the last", k)
				}
			} else if !(0 < p.end && p.end <= len(n.key) && cnt(n.key, p.end) == k+1) {
				bad("param %d end %d", k, p.end)
			}
		}
		if !isRoot && len(n.children) == 0 && n.route == nil {
			bad("no children and no route")
		}
		for p := 0; p < len(n.key) && !isRoot; p++ {
			if n.key[p] == '*' {
				if !(p+1 < len(n.key) && n.key[p+1] == '{') {
					bad("'*' at %d not followed by '{'", p)
					continue
				}
				k := cnt(n.key, p)
				if k < len(n.params) {
					if n.params[k].end >= 0 && n.inode == nil {
						bad("infix catch-all without inode")
					}
					if n.params[k].end == -1 && n.route == nil {
						bad("node ending in a catch-all is not a leaf")
					}
				}
			}
		}
		for _, c := range n.children {
			if c == nil {
				bad("nil child")
			}
			if roots[c] {
				bad("a per-method root node is the child of another node")
			}
			visit(c, false)
		}
		if n.inode != nil && roots[n.inode] {
			bad("a per-method root node is the inode of another node")
		}
		visit(n.inode, false)
	}
	for _, r := range f.getRoot().root {
		roots[r] = true
	}
	for _, r := range f.getRoot().root {
		visit(r, true)
	}
	return out
}

func TestFoxvcStandinMapModel(t *testing.T) {
	st := &mmStats{Exhaustive: true}
	seen := map[string]bool{}
	thorough := os.Getenv("FOXVC_TIER") == "thorough"
	maxLen := 3
	methods := []string{http.MethodGet, http.MethodPost}
	if thorough {
		maxLen = 4
	}
	var ops []mmOp
	for _, m := range methods {
		for _, p := range mmPool {
			ops = append(ops, mmOp{'h', m, p})
		}
	}
	for _, p := range []string{"/a/{x}", "/a", "foo.{bar}/baz", "/a/*{w}"} {
		ops = append(ops, mmOp{'u', http.MethodGet, p}, mmOp{'d', http.MethodGet, p})
	}
	// Truncate of one method that may hold routes, of a fixed verb that never holds any (its pre-instantiated root is
	// childless), and of everything (pattern "" = no method argument)
	ops = append(ops, mmOp{'t', http.MethodGet, "GET"}, mmOp{'t', http.MethodPut, "PUT"}, mmOp{'t', "", ""})
	st.Space = fmt.Sprintf("every sequence of <= %d operations from %d (Handle of %d patterns x %d methods, Update and Delete of 4 patterns, Truncate of GET / of the never-used PUT / of everything), each run directly on the router and inside one write transaction", maxLen, len(ops), len(mmPool), len(methods))
	handler := func(c Context) {}
	report := func(format string, a ...interface{}) {
		if len(st.Mismatches) < 40 {
			st.Mismatches = append(st.Mismatches, fmt.Sprintf(format, a...))
		}
	}
	type key struct{ m, p string }
	runSeq := func(seq []mmOp, inTxn bool) {
		st.Sequences++
		f, _ := New()
		model := map[key]*Route{}
		var txn *Txn
		if inTxn {
			txn = f.Txn(true)
			defer txn.Abort()
		}
		observe := func() (int, []string) {
			var got []string
			if inTxn {
				for m, r := range txn.Iter().All() {
					got = append(got, m+" "+r.Pattern())
				}
				sort.Strings(got)
				return txn.Len(), got
			}
			for m, r := range f.Iter().All() {
				got = append(got, m+" "+r.Pattern())
			}
			sort.Strings(got)
			return f.Len(), got
		}
		for i, op := range seq {
			st.Operations++
			k := key{op.method, op.pattern}
			// the model's verdict
			want := "ok"
			var conflicts []string
			switch op.kind {
			case 'h':
				if _, ok := model[k]; ok {
					want = "exist"
				} else {
					for mk := range model {
						if mk.m == op.method && mmConflict(mk.p, op.pattern) {
							conflicts = append(conflicts, mk.p)
						}
					}
					if len(conflicts) > 0 {
						want = "conflict"
					}
				}
			case 'u', 'd':
				if _, ok := model[k]; !ok {
					want = "notfound"
				}
			}
			var err error
			var rte *Route
			truncate := func(tx *Txn) error {
				if op.method == "" {
					return tx.Truncate()
				}
				return tx.Truncate(op.method)
			}
			switch {
			case op.kind == 't' && inTxn:
				err = truncate(txn)
			case op.kind == 't':
				err = f.Updates(truncate)
			case op.kind == 'h' && inTxn:
				rte, err = txn.Handle(op.method, op.pattern, handler)
			case op.kind == 'h':
				rte, err = f.Handle(op.method, op.pattern, handler)
			case op.kind == 'u' && inTxn:
				rte, err = txn.Update(op.method, op.pattern, handler)
			case op.kind == 'u':
				rte, err = f.Update(op.method, op.pattern, handler)
			case inTxn:
				rte, err = txn.Delete(op.method, op.pattern)
			default:
				rte, err = f.Delete(op.method, op.pattern)
			}
			got := mmErrKind(err)
			okey := fmt.Sprintf("%c|%s|%v", op.kind, got, inTxn)
			if !seen[okey] {
				seen[okey] = true
				st.Distinct++
				if len(st.SampleCases) < 8 {
					st.SampleCases = append(st.SampleCases, fmt.Sprintf("%v (step %d, txn=%v) -> %s", seq[:i+1], i, inTxn, got))
				}
			}
			if got != want {
				report("outcome seq=%v step=%d txn=%v: model says %s%v, router says %s (%v)", seq[:i+1], i, inTxn, want, conflicts, got, err)
				return
			}
			if got == "conflict" {
				var ce *RouteConflictError
				if errors.As(err, &ce) {
					gm := append([]string{}, ce.Matched...)
					sort.Strings(gm)
					sort.Strings(conflicts)
					if strings.Join(gm, ",") != strings.Join(conflicts, ",") {
						report("conflict-list seq=%v step=%d txn=%v: model names %v, router names %v", seq[:i+1], i, inTxn, conflicts, gm)
					}
				}
			}
			if got == "ok" {
				switch op.kind {
				case 'h', 'u':
					model[k] = rte
				case 't':
					for mk := range model {
						if op.method == "" || mk.m == op.method {
							delete(model, mk)
						}
					}
				case 'd':
					if rte != model[k] {
						report("delete-result seq=%v step=%d txn=%v: Delete returned a route that is not the registered one", seq[:i+1], i, inTxn)
					}
					delete(model, k)
				}
			}
			// the tree invariant assumed by the walk contracts holds after every operation (committed tree)
			if !inTxn {
				for _, v := range nodeWFViolations(f) {
					report("node-wf seq=%v step=%d: %s", seq[:i+1], i, v)
				}
			}
			// observers agree with the model after every call (so a failed call changed nothing)
			n, all := observe()
			var wantAll []string
			for mk := range model {
				wantAll = append(wantAll, mk.m+" "+mk.p)
			}
			sort.Strings(wantAll)
			if n != len(model) || strings.Join(all, "|") != strings.Join(wantAll, "|") {
				report("observers seq=%v step=%d txn=%v: model holds %v (len %d), router reports %v (len %d)", seq[:i+1], i, inTxn, wantAll, len(model), all, n)
				return
			}
			// the other iterators: Methods, Routes(pattern), Prefix(prefix)
			{
				it := f.Iter()
				if inTxn {
					it = txn.Iter()
				}
				wantM := map[string]bool{}
				for mk := range model {
					wantM[mk.m] = true
				}
				gotM := map[string]bool{}
				for m := range it.Methods() {
					gotM[m] = true
				}
				if fmt.Sprint(wantM) != fmt.Sprint(gotM) {
					report("methods seq=%v step=%d txn=%v: model %v, router %v", seq[:i+1], i, inTxn, wantM, gotM)
				}
				for _, pat := range []string{"/a/{x}", "/a", "foo.{bar}/baz", "/zz"} {
					var w, g []string
					for mk := range model {
						if mk.p == pat {
							w = append(w, mk.m)
						}
					}
					for m, r := range it.Routes(it.Methods(), pat) {
						if r.Pattern() != pat {
							report("routes seq=%v step=%d: Routes(%s) yielded %s", seq[:i+1], i, pat, r.Pattern())
						}
						g = append(g, m)
					}
					sort.Strings(w)
					sort.Strings(g)
					if strings.Join(w, ",") != strings.Join(g, ",") {
						report("routes seq=%v step=%d txn=%v: Routes(%s): model %v, router %v", seq[:i+1], i, inTxn, pat, w, g)
					}
				}
				for _, pre := range []string{"/a", "/a/", "foo.", "/", "/ab/d", "/ab/c", "/b", "/ab/cde"} {
					var w, g []string
					for mk := range model {
						if strings.HasPrefix(mk.p, pre) {
							w = append(w, mk.m+" "+mk.p)
						}
					}
					for m, r := range it.Prefix(it.Methods(), pre) {
						g = append(g, m+" "+r.Pattern())
					}
					sort.Strings(w)
					sort.Strings(g)
					if strings.Join(w, "|") != strings.Join(g, "|") {
						report("prefix seq=%v step=%d txn=%v: Prefix(%s): model %v, router %v", seq[:i+1], i, inTxn, pre, w, g)
					}
				}
			}
			for mk, mr := range model {
				var has bool
				var r *Route
				if inTxn {
					has, r = txn.Has(mk.m, mk.p), txn.Route(mk.m, mk.p)
				} else {
					has, r = f.Has(mk.m, mk.p), f.Route(mk.m, mk.p)
				}
				if !has || r != mr {
					report("lookup seq=%v step=%d txn=%v: Has/Route(%s %s) = %v/%v, model holds it", seq[:i+1], i, inTxn, mk.m, mk.p, has, r != nil)
				}
			}
		}
	}
	var rec func(cur []mmOp)
	rec = func(cur []mmOp) {
		if len(cur) > 0 {
			runSeq(cur, false)
			runSeq(cur, true)
		}
		if len(cur) == maxLen {
			return
		}
		for _, o := range ops {
			rec(append(cur[:len(cur):len(cur)], o))
		}
	}
	rec(nil)
	out, _ := json.Marshal(st)
	fmt.Printf("STANDIN %s\n", out)
	for _, m := range st.Mismatches {
		t.Errorf("MISMATCH %s", m)
	}
}
