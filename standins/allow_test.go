package fox

// Bounded stand-in for the header-bytes clause of C11: the contract of ServeHTTP decides WHICH method keys
// are written to the Allow builder (ghost record) and which handler runs, not the byte content of the
// header.  Here, for every combination of router options, every set of <= 2 (quick) / <= 3 (thorough)
// registrations from a pool of (method, pattern) pairs and every request of a probe list that no route
// serves, the status and the Allow header of the real response are compared with the documented answer,
// where "method m serves the request" is read off the router's own Reverse (direct match, or a
// trailing-slash match on a route that ignores trailing slashes).
//
// This file is NOT part of the repository: the check injects it with `go test -overlay`.
// It is labelled *bounded* everywhere it is reported and is never counted as proved.

import (
	"encoding/json"
	"fmt"
	"net/http"
	"net/http/httptest"
	"os"
	"sort"
	"strings"
	"testing"
)

type allowStats struct {
	RouteSets   int      `json:"route_sets"`
	Requests    int      `json:"unserved_requests"`
	Distinct    int      `json:"distinct_outcomes"`
	Mismatches  []string `json:"mismatches"`
	Space       string   `json:"space"`
	Exhaustive  bool     `json:"exhaustive"`
	SampleCases []string `json:"samples"`
}

type allowReg struct{ method, pattern string }

var allowPool = []allowReg{
	{"GET", "/a"}, {"POST", "/a"}, {"PUT", "/a/"}, {"FOO", "/a"}, {"OPTIONS", "/a"}, {"GET", "/b/{x}"}, {"DELETE", "/b/{x}/"},
	{"POST", "/{y}"}, {"GET", "h.com/a"}, {"FOO", "h.com/a/"}, {"HEAD", "/a"}, {"BAR", "/a"}, {"BAR", "/b/{x}"},
}

var allowProbes = []struct{ method, host, path, raw string }{
	{"GET", "", "/a", ""}, {"POST", "", "/a", ""}, {"DELETE", "", "/a", ""}, {"OPTIONS", "", "/a", ""}, {"OPTIONS", "", "/a/", ""}, {"PATCH", "", "/a/", ""},
	{"GET", "", "/b/1", ""}, {"PUT", "", "/b/1", ""}, {"OPTIONS", "", "/b/1/", ""}, {"OPTIONS", "", "*", ""}, {"BAR", "", "/a", ""}, {"GET", "", "/zz", ""},
	{"POST", "h.com", "/a", ""}, {"OPTIONS", "h.com", "/a/", ""}, {"OPTIONS", "", "/q", ""}, {"CONNECT", "", "/a/", ""},
	// escaped slash: the router matches on the raw path (one segment), not on the decoded one (two segments)
	{"PUT", "", "/b/p/q", "/b/p%2Fq"}, {"OPTIONS", "", "/b/p/q", "/b/p%2Fq"}, {"HEAD", "", "/b/p/q/", "/b/p%2Fq/"}, {"HEAD", "", "/a", ""},
}

func TestFoxvcStandinAllow(t *testing.T) {
	st := &allowStats{Exhaustive: true}
	seen := map[string]bool{}
	thorough := os.Getenv("FOXVC_TIER") == "thorough"
	maxSize := 2
	if thorough {
		maxSize = 3
	}
	st.Space = fmt.Sprintf("router options {auto OPTIONS, 405, ignore trailing slash} in all 8 combinations; all sets of <= %d registrations from %d (method, pattern) pairs; %d requests; only requests that no route serves are compared", maxSize, len(allowPool), len(allowProbes))
	report := func(format string, a ...interface{}) {
		if len(st.Mismatches) < 40 {
			st.Mismatches = append(st.Mismatches, fmt.Sprintf(format, a...))
		}
	}
	handler := func(c Context) { c.Writer().WriteHeader(299) }
	checkSet := func(regs []allowReg, autoOpt, noMethod, ignoreTS bool) {
		f, err := New(WithAutoOptions(autoOpt), WithNoMethod(noMethod), WithIgnoreTrailingSlash(ignoreTS))
		if err != nil {
			t.Fatal(err)
		}
		for _, r := range regs {
			if _, err := f.Handle(r.method, r.pattern, handler); err != nil {
				return
			}
		}
		st.RouteSets++
		methods := map[string]bool{}
		for _, r := range regs {
			methods[r.method] = true
		}
		serves := func(m, host, path string) bool {
			route, tsr := f.Reverse(m, host, path)
			return route != nil && (!tsr || route.IgnoreTrailingSlashEnabled())
		}
		for _, p := range allowProbes {
			req := httptest.NewRequest(p.method, "http://x/", nil)
			req.Host = p.host
			req.URL.Path = p.path
			req.URL.RawPath = p.raw
			lookupPath := p.path
			if p.raw != "" {
				lookupPath = p.raw
			}
			if p.path == "*" {
				req.RequestURI = "*"
			}
			// only unserved requests are in scope
			if route, tsr := f.Reverse(p.method, p.host, lookupPath); route != nil && (!tsr || (p.method != http.MethodConnect && p.path != "/")) {
				continue
			}
			st.Requests++
			w := httptest.NewRecorder()
			f.ServeHTTP(w, req)
			gotAllow := w.Header().Get("Allow")
			// the documented answer
			wantCode, want := http.StatusNotFound, []string(nil)
			if p.method == http.MethodOptions && autoOpt {
				for m := range methods {
					if p.path == "*" {
						if m != http.MethodOptions {
							want = append(want, m)
						}
					} else if serves(m, p.host, lookupPath) {
						want = append(want, m)
					}
				}
				if len(want) > 0 {
					wantCode = http.StatusOK
					hasOpt := false
					for _, m := range want {
						hasOpt = hasOpt || m == http.MethodOptions
					}
					if !hasOpt {
						want = append(want, http.MethodOptions)
					}
				}
			} else if noMethod {
				for m := range methods {
					if m != p.method && serves(m, p.host, lookupPath) {
						want = append(want, m)
					}
				}
				if len(want) > 0 {
					wantCode = http.StatusMethodNotAllowed
					hasOpt := false
					for _, m := range want {
						hasOpt = hasOpt || m == http.MethodOptions
					}
					if autoOpt && !hasOpt {
						want = append(want, http.MethodOptions)
					}
				}
			}
			var got []string
			if gotAllow != "" {
				got = strings.Split(gotAllow, ", ")
			}
			gs, ws := append([]string{}, got...), append([]string{}, want...)
			sort.Strings(gs)
			sort.Strings(ws)
			key := fmt.Sprintf("%d|%s", w.Code, strings.Join(gs, ","))
			if !seen[key] {
				seen[key] = true
				st.Distinct++
				if len(st.SampleCases) < 8 {
					st.SampleCases = append(st.SampleCases, fmt.Sprintf("regs=%v auto=%v 405=%v ignoreTS=%v %s %q%s -> %d Allow=%q", regs, autoOpt, noMethod, ignoreTS, p.method, p.host, p.path, w.Code, gotAllow))
				}
			}
			okCode := w.Code == wantCode || (wantCode == http.StatusOK && w.Code == http.StatusOK)
			if !okCode || strings.Join(gs, ",") != strings.Join(ws, ",") {
				report("allow regs=%v auto=%v 405=%v ignoreTS=%v request=%s %q%s: want %d Allow=%v, got %d Allow=%q", regs, autoOpt, noMethod, ignoreTS, p.method, p.host, p.path, wantCode, ws, w.Code, gotAllow)
			}
			// formatting: no empty element, no duplicate, ", " separated
			dup := map[string]bool{}
			for _, m := range got {
				if m == "" || dup[m] || strings.TrimSpace(m) != m {
					report("allow-format regs=%v request=%s %s: Allow=%q", regs, p.method, p.path, gotAllow)
				}
				dup[m] = true
			}
		}
	}
	var rec func(start int, cur []allowReg)
	rec = func(start int, cur []allowReg) {
		if len(cur) > 0 {
			for mask := 0; mask < 8; mask++ {
				checkSet(cur, mask&1 != 0, mask&2 != 0, mask&4 != 0)
			}
		}
		if len(cur) == maxSize {
			return
		}
		for i := start; i < len(allowPool); i++ {
			rec(i+1, append(cur[:len(cur):len(cur)], allowPool[i]))
		}
	}
	rec(0, nil)
	out, _ := json.Marshal(st)
	fmt.Printf("STANDIN %s\n", out)
	for _, m := range st.Mismatches {
		t.Errorf("MISMATCH %s", m)
	}
}
