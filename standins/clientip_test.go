package clientip

// Bounded stand-in for the strategy clauses of C18.  The resolvers are written with
// range-over-func iterators and non-local returns, which the verifier's Go subset does not
// cover; the default CIDR tables are decided separately (bit-vector audit, proof level).
// Here every resolver is compared with a direct transcription of its documented strategy
// over an exhaustively enumerated bounded space of header contents, and the rightmost
// strategies are checked to be independent of anything placed to the left of the selected
// entry (including very long left padding).
//
// This file is NOT part of the repository: the check injects it with `go test -overlay`.
// It is labelled *bounded* everywhere it is reported and is never counted as proved.

import (
	"encoding/json"
	"fmt"
	"net"
	"net/http"
	"net/http/httptest"
	"os"
	"strings"
	"testing"

	"github.com/tigerwill90/fox"
)

type cipStats struct {
	Headers     int      `json:"header_contents"`
	Evaluations int      `json:"resolver_evaluations"`
	Distinct    int      `json:"distinct_outcomes"`
	Mismatches  []string `json:"mismatches"`
	Space       string   `json:"space"`
	Exhaustive  bool     `json:"exhaustive"`
	SampleCases []string `json:"samples"`
}

// entries of a header (all lines, in order), parsed item by item with the package's own item parsers
func refEntries(lines []string, forwarded bool) []*net.IPAddr {
	var out []*net.IPAddr
	for _, l := range lines {
		for _, it := range strings.Split(l, ",") {
			it = strings.TrimSpace(it)
			if forwarded {
				out = append(out, parseForwardedListItem(it))
			} else {
				ip, _ := ParseIPAddr(it)
				out = append(out, ip)
			}
		}
	}
	return out
}

// brief prints header lines, abbreviating very long ones to their length and their right end
func brief(lines []string) string {
	var out []string
	for _, l := range lines {
		if len(l) > 120 {
			out = append(out, fmt.Sprintf("<%d bytes>...%q", len(l), l[len(l)-60:]))
		} else {
			out = append(out, fmt.Sprintf("%q", l))
		}
	}
	return "[" + strings.Join(out, " ") + "]"
}

func inRanges(ip *net.IPAddr, rs []net.IPNet) bool {
	for _, r := range rs {
		if r.Contains(ip.IP) {
			return true
		}
	}
	return false
}

type refResult struct {
	ip  string
	err bool
}

func show(ip *net.IPAddr, err error) refResult {
	if err != nil {
		if ip != nil {
			return refResult{"fallback:" + ip.String(), true}
		}
		return refResult{"", true}
	}
	if ip == nil {
		return refResult{"<nil without error>", false}
	}
	return refResult{ip.String(), false}
}

func refRightmostTrustedCount(es []*net.IPAddr, n int) refResult {
	if len(es) < n || es[len(es)-n] == nil {
		return refResult{"", true}
	}
	return refResult{es[len(es)-n].String(), false}
}

func refRightmostNonPrivate(es []*net.IPAddr, trusted []net.IPNet) refResult {
	for i := len(es) - 1; i >= 0; i-- {
		if es[i] != nil && !inRanges(es[i], trusted) {
			return refResult{es[i].String(), false}
		}
	}
	return refResult{"", true}
}

func refRightmostTrustedRange(es []*net.IPAddr, trusted []net.IPNet) refResult {
	for i := len(es) - 1; i >= 0; i-- {
		if es[i] != nil && inRanges(es[i], trusted) {
			continue
		}
		if es[i] == nil {
			return refResult{"", true}
		}
		return refResult{es[i].String(), false}
	}
	return refResult{"", true}
}

func refLeftmostNonPrivate(es []*net.IPAddr, limit int, excluded []net.IPNet) refResult {
	for i := 0; i < len(es) && i < limit; i++ {
		if es[i] != nil && !inRanges(es[i], excluded) {
			return refResult{es[i].String(), false}
		}
	}
	return refResult{"", true}
}

var cipItems = []string{"1.1.1.1", "10.0.0.1", "garbage", "", "8.8.8.8", "192.168.1.1", "2001:db8::1", "2606:4700::1", "0.0.0.0", "198.18.0.1"}

func TestFoxvcStandinClientIP(t *testing.T) {
	st := &cipStats{Exhaustive: true}
	seen := map[string]bool{}
	thorough := os.Getenv("FOXVC_TIER") == "thorough"
	maxLen := 3
	if thorough {
		maxLen = 4
	}
	st.Space = fmt.Sprintf("X-Forwarded-For: every sequence of <= %d items from %d item shapes (public, private, invalid, empty, IPv6, unspecified, benchmark range), joined on one header line and split over two lines at every position; Forwarded: the same sequences as for= items; trusted counts 1..3, limits 1..3; left padding of 0, 1, 64, 5000 and 70000 bytes for the rightmost strategies; every subset and both orders of the three range options over the 24 orderings of a public, a private, a link-local and a loopback entry", maxLen, len(cipItems))
	report := func(format string, a ...interface{}) {
		if len(st.Mismatches) < 40 {
			st.Mismatches = append(st.Mismatches, fmt.Sprintf(format, a...))
		}
	}
	mkctx := func(h http.Header) fox.Context {
		req := httptest.NewRequest(http.MethodGet, "/", nil)
		req.Header = h
		req.RemoteAddr = "9.9.9.9:1234"
		return fox.NewTestContextOnly(httptest.NewRecorder(), req)
	}
	note := func(name string, lines []string, got refResult) {
		key := name + "|" + got.ip + fmt.Sprint(got.err)
		if !seen[key] {
			seen[key] = true
			st.Distinct++
			if len(st.SampleCases) < 8 {
				st.SampleCases = append(st.SampleCases, fmt.Sprintf("%s %q -> %+v", name, lines, got))
			}
		}
	}
	trusted := privateAndLocalRanges
	checkHeader := func(key HeaderKey, lines []string, padded bool) {
		st.Headers++
		hname := key.String()
		forwarded := hname == forwardedHdr
		es := refEntries(lines, forwarded)
		h := http.Header{hname: lines}
		for n := 1; n <= 3; n++ {
			r, _ := NewRightmostTrustedCount(key, uint(n))
			got := show(r.ClientIP(mkctx(h)))
			want := refRightmostTrustedCount(es, n)
			st.Evaluations++
			note("rightmost-trusted-count", lines, got)
			if got != want {
				report("rightmost-trusted-count n=%d header=%s lines=%s: want %+v, got %+v", n, hname, brief(lines), want, got)
			}
		}
		{
			r, _ := NewRightmostNonPrivate(key)
			got := show(r.ClientIP(mkctx(h)))
			want := refRightmostNonPrivate(es, trusted)
			st.Evaluations++
			note("rightmost-non-private", lines, got)
			if got != want {
				report("rightmost-non-private header=%s lines=%s: want %+v, got %+v", hname, brief(lines), want, got)
			}
		}
		{
			r, _ := NewRightmostTrustedRange(key, TrustedIPRangeFunc(func() ([]net.IPNet, error) { return trusted, nil }))
			got := show(r.ClientIP(mkctx(h)))
			want := refRightmostTrustedRange(es, trusted)
			st.Evaluations++
			note("rightmost-trusted-range", lines, got)
			if got != want {
				report("rightmost-trusted-range header=%s lines=%s: want %+v, got %+v", hname, brief(lines), want, got)
			}
		}
		if padded {
			return
		}
		for limit := 1; limit <= 3; limit++ {
			r, _ := NewLeftmostNonPrivate(key, uint(limit))
			got := show(r.ClientIP(mkctx(h)))
			want := refLeftmostNonPrivate(es, limit, privateAndLocalRanges)
			st.Evaluations++
			note("leftmost-non-private", lines, got)
			if got != want {
				report("leftmost-non-private limit=%d header=%s lines=%s: want %+v, got %+v", limit, hname, brief(lines), want, got)
			}
		}
		if !forwarded {
			r, _ := NewSingleIPHeader("X-Real-Ip")
			hh := http.Header{"X-Real-Ip": lines}
			got := show(r.ClientIP(mkctx(hh)))
			ip, err := ParseIPAddr(lines[len(lines)-1])
			want := show(ip, err)
			st.Evaluations++
			note("single-header", lines, got)
			if got != want {
				report("single-header lines=%s: want %+v, got %+v", brief(lines), want, got)
			}
			// chain: first success, never a fallback
			ch := NewChain(r, must(NewRightmostNonPrivate(key)))
			gotc := show(ch.ClientIP(mkctx(http.Header{"X-Real-Ip": lines, hname: lines})))
			wantc := want
			if want.err {
				wantc = refRightmostNonPrivate(es, trusted)
			}
			st.Evaluations++
			if gotc != wantc {
				report("chain lines=%s: want %+v, got %+v", brief(lines), wantc, gotc)
			}
		}
	}
	item := func(s string, forwarded bool) string {
		if !forwarded {
			return s
		}
		if strings.Contains(s, ":") {
			return `for="[` + s + `]"`
		}
		return "for=" + s
	}
	var rec func(cur []string)
	rec = func(cur []string) {
		if len(cur) > 0 {
			for _, key := range []HeaderKey{XForwardedForKey, ForwardedKey} {
				fw := key.String() == forwardedHdr
				items := make([]string, len(cur))
				for i, c := range cur {
					items[i] = item(c, fw)
				}
				checkHeader(key, []string{strings.Join(items, ", ")}, false)
				for cut := 1; cut < len(items); cut++ {
					checkHeader(key, []string{strings.Join(items[:cut], ","), strings.Join(items[cut:], ", ")}, false)
				}
				// left independence of the rightmost strategies: padding that contains no comma extends the
				// leftmost item only; padding as extra items adds entries on the left
				if len(cur) >= 2 && len(cur) <= 3 {
					for _, n := range []int{1, 64, 5000, 70000} {
						pad := strings.Repeat("7", n)
						base := refEntries([]string{strings.Join(items[1:], ", ")}, fw)
						_ = base
						lines := []string{pad + ", " + strings.Join(items, ", ")}
						checkHeader(key, lines, true)
						lines2 := []string{strings.Repeat("6.6.6.6, ", n/9+1) + strings.Join(items, ", ")}
						checkHeader(key, lines2, true)
					}
				}
			}
		}
		if len(cur) == maxLen {
			return
		}
		for _, it := range cipItems {
			rec(append(cur[:len(cur):len(cur)], it))
		}
	}
	rec(nil)
	// range options: every subset of {loopback, link local, private} as trusted ranges (rightmost-non-private) and as
	// excluded ranges (leftmost-non-private), in both option orders, over every ordering of one public, one private,
	// one link-local and one loopback entry; resolvers with default ranges are built before and used after, so an option
	// combination that damages the shared tables shows as well
	{
		defR, _ := NewRightmostNonPrivate(XForwardedForKey)
		defL, _ := NewLeftmostNonPrivate(XForwardedForKey, 4)
		// the documented tables as they are before any option is applied (deep copies)
		cp := func(in []net.IPNet) []net.IPNet {
			out := make([]net.IPNet, len(in))
			for i, n := range in {
				out[i] = net.IPNet{IP: append(net.IP{}, n.IP...), Mask: append(net.IPMask{}, n.Mask...)}
			}
			return out
		}
		tables := [][]net.IPNet{cp(loopbackRanges), cp(linkLocalRanges), cp(privateRange)}
		defaults := cp(privateAndLocalRanges)
		entries := []string{"6.6.6.6", "10.1.2.3", "169.254.0.9", "127.0.0.1"}
		var perms [][]string
		var permute func(cur, rest []string)
		permute = func(cur, rest []string) {
			if len(rest) == 0 {
				perms = append(perms, append([]string{}, cur...))
				return
			}
			for i := range rest {
				nr := append(append([]string{}, rest[:i]...), rest[i+1:]...)
				permute(append(cur, rest[i]), nr)
			}
		}
		permute(nil, entries)
		for mask := 0; mask < 8; mask++ {
			for _, reversed := range []bool{false, true} {
				var ropts []TrustedRangeOption
				var lopts []BlacklistRangeOption
				var want []net.IPNet
				order := []int{0, 1, 2}
				if reversed {
					order = []int{2, 1, 0}
				}
				for _, k := range order {
					on := mask&(1<<k) != 0
					switch k {
					case 0:
						ropts, lopts = append(ropts, TrustLoopback(on)), append(lopts, ExcludeLoopback(on))
					case 1:
						ropts, lopts = append(ropts, TrustLinkLocal(on)), append(lopts, ExcludeLinkLocal(on))
					case 2:
						ropts, lopts = append(ropts, TrustPrivateNet(on)), append(lopts, ExcludePrivateNet(on))
					}
					if on {
						want = append(want, tables[k]...)
					}
				}
				if mask == 0 {
					want = defaults
				}
				rr, _ := NewRightmostNonPrivate(XForwardedForKey, ropts...)
				lr, _ := NewLeftmostNonPrivate(XForwardedForKey, 4, lopts...)
				for _, pm := range perms {
					lines := []string{strings.Join(pm, ", ")}
					es := refEntries(lines, false)
					h := http.Header{XForwardedForKey.String(): lines}
					st.Evaluations += 4
					if got, w := show(rr.ClientIP(mkctx(h))), refRightmostNonPrivate(es, want); got != w {
						report("rightmost-non-private options mask=%d reversed=%v lines=%s: want %+v, got %+v", mask, reversed, brief(lines), w, got)
					}
					if got, w := show(lr.ClientIP(mkctx(h))), refLeftmostNonPrivate(es, 4, want); got != w {
						report("leftmost-non-private options mask=%d reversed=%v lines=%s: want %+v, got %+v", mask, reversed, brief(lines), w, got)
					}
					if got, w := show(defR.ClientIP(mkctx(h))), refRightmostNonPrivate(es, defaults); got != w {
						report("rightmost-non-private (default ranges, after option mask=%d) lines=%s: want %+v, got %+v", mask, brief(lines), w, got)
					}
					if got, w := show(defL.ClientIP(mkctx(h))), refLeftmostNonPrivate(es, 4, defaults); got != w {
						report("leftmost-non-private (default ranges, after option mask=%d) lines=%s: want %+v, got %+v", mask, brief(lines), w, got)
					}
				}
			}
		}
	}
	out, _ := json.Marshal(st)
	fmt.Printf("STANDIN %s\n", out)
	for _, m := range st.Mismatches {
		t.Errorf("MISMATCH %s", m)
	}
}
