package main

// Frame obligations: at every return, each heap the function wrote must be
// unchanged on the objects that existed at entry, except at the locations
// named by the contract's modifies clause.

import (
	"fmt"
	"go/types"
	"strings"
)

type frameItem struct {
	whole string // heap key covered completely
	key   string // heap key of a single location
	ref   string // the location's reference
}

func (v *FnVC) frameItems() (items []frameItem, all bool) {
	env := v.initEnv
	for _, m := range v.fc.Modifies {
		switch {
		case m == "heap":
			return nil, true
		case m == "alloc":
			continue
		}
		if g, ok := v.w.cs.Ghosts[m]; ok {
			items = append(items, frameItem{whole: v.w.ghostKey(g)})
			continue
		}
		if strings.HasPrefix(m, "E[") && strings.HasSuffix(m, "]") {
			if t := v.w.parseType(m[2:len(m)-1], v.fn.Pkg); t != nil {
				items = append(items, frameItem{whole: v.elemKey(t)})
			}
			continue
		}
		if strings.HasPrefix(m, "C[") && strings.HasSuffix(m, "]") {
			if t := v.w.parseType(m[2:len(m)-1], v.fn.Pkg); t != nil {
				items = append(items, frameItem{whole: v.cellKey(t)})
			}
			continue
		}
		e, err := ParseExpr(m)
		if err != nil {
			continue
		}
		switch x := e.(type) {
		case *IndexE:
			if id, ok := x.X.(*Ident); ok {
				if g, ok := v.w.cs.Ghosts[id.Name]; ok {
					idx := v.specTerm(x.I, env, nil)
					items = append(items, frameItem{key: v.w.ghostKey(g), ref: idx.S})
				}
			}
		case *SelE:
			if id, ok := x.X.(*Ident); ok {
				if _, isVar := v.params[id.Name]; !isVar {
					if tn := v.w.lookupType(id.Name, v.fn.Pkg); tn != nil {
						if st, ok := tn.Underlying().(*types.Struct); ok {
							for i := 0; i < st.NumFields(); i++ {
								if st.Field(i).Name() == x.Name {
									v.frameWholeField(&items, st, structName(tn), i)
								}
							}
						}
						continue
					}
				}
			}
			base := v.specTerm(x.X, env, nil)
			if st, sname, ok := derefStruct(base.T); ok {
				for i := 0; i < st.NumFields(); i++ {
					if st.Field(i).Name() == x.Name {
						v.frameLoc(&items, st, sname, i, base.S)
					}
				}
			}
		case *CallE:
			if x.Fun == "mapof" && len(x.Args) == 1 {
				mt := v.specTerm(x.Args[0], env, nil)
				if _, ok := mt.T.Underlying().(*types.Map); ok {
					kk, dk, _ := v.mapKeys(mt.T)
					items = append(items, frameItem{key: kk, ref: mt.S}, frameItem{key: dk, ref: mt.S})
				}
			}
			if x.Fun == "elems" && len(x.Args) == 1 {
				s := v.specTerm(x.Args[0], env, nil)
				if sl, ok := s.T.Underlying().(*types.Slice); ok {
					items = append(items, frameItem{key: v.elemKey(sl.Elem()), ref: fmt.Sprintf("(sl_ref %s)", s.S)})
				}
			}
		case *Unary:
			if x.Op == "*" {
				p := v.specTerm(x.X, env, nil)
				if pt, ok := p.T.Underlying().(*types.Pointer); ok {
					if st, ok := pt.Elem().Underlying().(*types.Struct); ok {
						for i := 0; i < st.NumFields(); i++ {
							v.frameLoc(&items, st, structName(pt.Elem()), i, p.S)
						}
					} else {
						items = append(items, frameItem{key: v.cellKey(pt.Elem()), ref: p.S})
					}
				}
			}
		}
	}
	return items, false
}

func (v *FnVC) frameWholeField(items *[]frameItem, st *types.Struct, sname string, i int) {
	ft := st.Field(i).Type()
	if fst, ok := ft.Underlying().(*types.Struct); ok {
		for j := 0; j < fst.NumFields(); j++ {
			v.frameWholeField(items, fst, structName(ft), j)
		}
		return
	}
	*items = append(*items, frameItem{whole: v.fieldKey(st, sname, i)})
}

func (v *FnVC) frameLoc(items *[]frameItem, st *types.Struct, sname string, i int, ref string) {
	ft := st.Field(i).Type()
	if fst, ok := ft.Underlying().(*types.Struct); ok {
		sub := v.subRef(ref, sname, st, i)
		for j := 0; j < fst.NumFields(); j++ {
			v.frameLoc(items, fst, structName(ft), j, sub)
		}
		return
	}
	*items = append(*items, frameItem{key: v.fieldKey(st, sname, i), ref: ref})
}

// frameGoals: for each heap key in `keys` that differs from its initial version,
// the formula "unchanged outside the modifies clause on entry-allocated objects".
func (v *FnVC) frameGoals(keys []string) map[string]string {
	out := map[string]string{}
	items, all := v.frameItems()
	if all {
		return out
	}
	next0 := v.init("nextref")
	since := v.sinceKeys(v.fc)
	since0 := ""
	if v.fc.SinceGhost != "" {
		if g, ok := v.w.cs.Ghosts[v.fc.SinceGhost]; ok {
			since0 = v.init(v.w.ghostKey(g))
		}
	}
	for _, key := range keys {
		if strings.HasPrefix(key, "L:") || key == "nextref" {
			continue
		}
		cur, ok := v.st[key]
		if !ok {
			continue
		}
		init := v.init(key)
		if cur == init {
			continue
		}
		whole := false
		var locs []string
		for _, it := range items {
			if it.whole == key {
				whole = true
			}
			if it.key == key {
				locs = append(locs, it.ref)
			}
		}
		if whole {
			continue
		}
		sort := v.heapSort(key)
		if !strings.HasPrefix(sort, "(Array Int") {
			out[key] = fmt.Sprintf("(= %s %s)", cur, init)
			continue
		}
		var excl []string
		for _, l := range locs {
			excl = append(excl, fmt.Sprintf("(not (= r! %s))", l))
		}
		if since[key] && since0 != "" {
			// objects created since the snapshot point may be written
			excl = append(excl, fmt.Sprintf("(< r! %s)", since0))
		}
		out[key] = fmt.Sprintf("(forall ((r! Int)) (! (=> (and (< r! %s) %s) (= (select %s r!) (select %s r!))) :pattern ((select %s r!))))", next0, and(excl...), cur, init, cur)
	}
	return out
}

// sinceKeys: heap keys named by a modifies-since clause of fc.
func (v *FnVC) sinceKeys(fc *FuncContract) map[string]bool {
	out := map[string]bool{}
	pkg := v.w.pkgByPath(fc.Pkg)
	if pkg == nil && v.fn != nil {
		pkg = v.fn.Pkg
	}
	for _, h := range fc.SinceHeaps {
		if strings.HasPrefix(h, "E[") && strings.HasSuffix(h, "]") {
			if t := v.w.parseType(h[2:len(h)-1], pkg); t != nil {
				out[v.elemKey(t)] = true
			}
			continue
		}
		if k := strings.Index(h, "."); k > 0 {
			if tn := v.w.lookupType(h[:k], pkg); tn != nil {
				if st, ok := tn.Underlying().(*types.Struct); ok {
					for i := 0; i < st.NumFields(); i++ {
						if st.Field(i).Name() == h[k+1:] {
							var items []frameItem
							v.frameWholeField(&items, st, structName(tn), i)
							for _, it := range items {
								out[it.whole] = true
							}
						}
					}
				}
			}
		}
	}
	return out
}

func (v *FnVC) frameObligations(site string) {
	if v.dry || v.fc.Extern {
		return
	}
	goals := v.frameGoals(sortedKeys(v.st))
	for _, key := range sortedKeys(goals) {
		v.behavClause = false
		v.oblige("frame", sanitize(key)+site, goals[key], nil, true, "writes outside the modifies clause: "+key, 0)
	}
}

func (v *FnVC) frameObligationsOld(site string) {
	if v.dry || v.fc.Extern {
		return
	}
	items, all := v.frameItems()
	if all {
		return
	}
	next0 := v.init("nextref")
	for _, key := range sortedKeys(v.st) {
		if strings.HasPrefix(key, "L:") || key == "nextref" {
			continue
		}
		cur := v.st[key]
		init := v.init(key)
		if cur == init {
			continue
		}
		whole := false
		var locs []string
		for _, it := range items {
			if it.whole == key {
				whole = true
			}
			if it.key == key {
				locs = append(locs, it.ref)
			}
		}
		if whole {
			continue
		}
		sort := v.heapSort(key)
		if !strings.HasPrefix(sort, "(Array Int") {
			// a scalar (global variable, scalar ghost): must be unchanged
			v.behavClause = false
			v.oblige("frame", sanitize(key)+site, fmt.Sprintf("(= %s %s)", cur, init), nil, true, "not in modifies: "+key, 0)
			continue
		}
		var excl []string
		for _, l := range locs {
			excl = append(excl, fmt.Sprintf("(not (= r! %s))", l))
		}
		goal := fmt.Sprintf("(forall ((r! Int)) (=> (and (< r! %s) %s) (= (select %s r!) (select %s r!))))", next0, and(excl...), cur, init)
		v.behavClause = false
		v.oblige("frame", sanitize(key)+site, goal, nil, true, "writes outside the modifies clause: "+key, 0)
	}
}
