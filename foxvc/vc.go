package main

// VC generation for one function: go/ssa (naive form) -> passive DAG with
// reachability predicates -> one SMT query per obligation.

import (
	"fmt"
	"go/constant"
	"go/token"
	"go/types"
	"sort"
	"strconv"
	"strings"

	"golang.org/x/tools/go/ssa"
)

type Term struct {
	S string
	T types.Type // nil for spec-only values
}

type State map[string]string

func (s State) clone() State {
	n := make(State, len(s))
	for k, v := range s {
		n[k] = v
	}
	return n
}

type Place struct {
	Kind  string // local, field, elem, cell, strelem, global
	Key   string // local: state key
	Path  []int  // local: field path inside a struct local; for local arrays: not used
	Idx   string // elem: index term (relative to slice) ; local array: index
	Base  Term   // field: struct ref; elem: slice term; cell: ref
	Field int
	ST    *types.Struct
	SName string
	Typ   types.Type // type of the place's content
	PathT []types.Type
	IsArr bool
}

type Obligation struct {
	Name     string
	Kind     string
	Props    []string
	Func     string
	Behav    string
	Goal     string
	At       string   // point predicate
	Hoisted  []string // assumptions of dominators
	Pos      token.Position
	Claimed  bool
	Text     string
	Cover    bool // a cover query: expected SAT
	block    *ssa.BasicBlock
	bg       *string
	Result   *SolveResult
	RawQuery string // a complete query (audits); bypasses the function VC
	RawBits  int
	Witness  string
	Replay   *ReplayResult
	Vars     []ModelVar
}

type ModelVar struct {
	Name string // Go-level name
	Term string // SMT term
	Type string // int, bool, string, ...
}

type assumption struct {
	term string
}

type blockInfo struct {
	in, out State
	reach   string
	point   string // current at-point predicate
	assumes []string
	done    bool
	edgeOut map[int]string // succ index -> edge predicate
	writes  map[string]bool
}

type loopInfo struct {
	head    *ssa.BasicBlock
	blocks  map[*ssa.BasicBlock]bool
	backs   []*ssa.BasicBlock
	key     []string // names this loop answers to: ordinal, label
	writes  map[string]bool
	decr    []string // measure terms at head
	entrySt State
}

type FnVC struct {
	w             *World
	fn            *ssa.Function
	fc            *FuncContract
	behav         string
	fname         string
	body          strings.Builder
	nctr          int
	vals          map[ssa.Value]Term
	places        map[ssa.Value]*Place
	blocks        map[*ssa.BasicBlock]*blockInfo
	loops         map[*ssa.BasicBlock]*loopInfo
	initial       State
	initEnv       *Env
	params        map[string]Term
	obls          []*Obligation
	cur           *ssa.BasicBlock
	st            State
	dry           bool
	callCnt       map[string]int
	notes         []string
	unsup         []string
	results       []Term
	modelVs       []ModelVar
	oblSeen       map[string]int
	storeCnt      map[string]int
	usedClause    map[*Clause]bool
	usedGhostSet  map[int]bool
	staleGhostSet map[int]string
	entryAssumes  []string
	retCnt        int
	panicCnt      int
	deferred      []*ssa.Defer
	panicSite     string // non-empty while the exceptional path of a call is translated
	frameOK       map[string]bool // versions of modifies-since heaps whose frame condition has been established (cut points)
	sinceCache    map[string]bool
	allocPos      map[token.Pos]*ssa.Alloc
	safetyAssumed int
	behavClause   bool
	callOrd       map[*ssa.CallCommon]int
	symHeaps      map[string]bool // non-nil while the body of a recursive spec function is translated
	localSorts    map[string]string
	localTypes    map[string]types.Type
	localNames    map[string]string
	tuples        map[ssa.Value][]Term
}

func (v *FnVC) fresh(prefix string) string {
	v.nctr++
	return fmt.Sprintf("|%s~%d|", sanitize(prefix), v.nctr)
}

func (v *FnVC) declare(name, sort string) {
	fmt.Fprintf(&v.body, "(declare-const %s %s)\n", name, sort)
}

func (v *FnVC) define(prefix, sort, term string) string {
	if len(term) < 40 && !strings.ContainsAny(term, " ") {
		return term
	}
	n := v.fresh(prefix)
	fmt.Fprintf(&v.body, "(define-fun %s () %s %s)\n", n, sort, term)
	return n
}

func (v *FnVC) sortOf(t types.Type) string { return v.w.sorts.sortOf(t) }

// ---------- state access

func (v *FnVC) heapSort(key string) string {
	if s, ok := v.localSorts[key]; ok {
		return s
	}
	if s, ok := v.w.heapSorts[key]; ok {
		return s
	}
	panic("unknown heap key " + key)
}

func (v *FnVC) get(key string) string {
	if v.symHeaps != nil && !strings.HasPrefix(key, "L:") {
		v.symHeaps[key] = true
		return "|H!" + sanitize(key) + "|"
	}
	if t, ok := v.st[key]; ok {
		return t
	}
	return v.init(key)
}

func (v *FnVC) init(key string) string {
	if t, ok := v.initial[key]; ok {
		return t
	}
	if strings.HasPrefix(key, "L:") {
		panic("read of unset local " + key)
	}
	n := "|" + sanitize(key) + "@0|"
	v.declare(n, v.heapSort(key))
	v.initial[key] = n
	if t, ok := v.w.heapTypes[key]; ok && (strings.HasPrefix(key, "F|") || strings.HasPrefix(key, "C|")) {
		if r := v.rangeOf("(select "+n+" r!)", t); r != "true" {
			// type invariant of the initial heap: every stored value is in the range of its type
			fmt.Fprintf(&v.body, "(assert (forall ((r! Int)) (! %s :pattern ((select %s r!)))))\n", r, n)
		}
		// well-formed initial heap: no reference to an object that does not exist yet
		if key != "nextref" {
			if a := v.allocatedAt(Term{"(select " + n + " r!)", t}, "|nextref@0|"); a != "true" {
				v.ensureNextref()
				v.init("nextref")
				fmt.Fprintf(&v.body, "(assert (forall ((r! Int)) (! (=> (< r! |nextref@0|) %s) :pattern ((select %s r!)))))\n", a, n)
			}
		}
	}
	if t, ok := v.w.heapTypes[key]; ok && strings.HasPrefix(key, "ghost|") && isGhostMap(t) {
		// ghost maps never mention objects that do not exist yet
		et := t.Underlying().(*types.Map).Elem()
		_, isPtr := et.Underlying().(*types.Pointer)
		if b, ok := et.Underlying().(*types.Basic); isPtr || (ok && b.Kind() == types.UnsafePointer) {
			v.ensureNextref()
			v.init("nextref")
			fmt.Fprintf(&v.body, "(assert (forall ((r! Int)) (! (< (select %s r!) |nextref@0|) :pattern ((select %s r!)))))\n", n, n)
		}
		// the ghost state of an object that does not exist yet is the zero state
		if b, ok := et.Underlying().(*types.Basic); ok && b.Info()&(types.IsInteger|types.IsBoolean) != 0 {
			zero := "0"
			if b.Info()&types.IsBoolean != 0 {
				zero = "false"
			}
			v.ensureNextref()
			v.init("nextref")
			fmt.Fprintf(&v.body, "(assert (forall ((r! Int)) (! (=> (>= r! |nextref@0|) (= (select %s r!) %s)) :pattern ((select %s r!)))))\n", n, zero, n)
		}
	}
	if t, ok := v.w.heapTypes[key]; ok && strings.HasPrefix(key, "E|") {
		if a := v.allocatedAt(Term{"(select (select " + n + " r!) j!)", t}, "|nextref@0|"); a != "true" {
			v.ensureNextref()
			v.init("nextref")
			fmt.Fprintf(&v.body, "(assert (forall ((r! Int) (j! Int)) (! (=> (< r! |nextref@0|) %s) :pattern ((select (select %s r!) j!)))))\n", a, n)
		}
	}
	return n
}

func (v *FnVC) set(key, sort, term string) {
	if bi := v.blocks[v.cur]; bi != nil {
		bi.writes[key] = true
	}
	if strings.HasPrefix(sort, "(Array") && strings.HasPrefix(term, "(ite ") {
		// conditional heap versions are constants (not macros) so that they can occur in quantifier patterns
		v.st[key] = v.defineConst(key, sort, term)
		return
	}
	v.st[key] = v.define(key, sort, term)
}

// defineConst introduces a fresh constant equal to term (a definition, asserted unconditionally).
func (v *FnVC) defineConst(prefix, sort, term string) string {
	if len(term) < 60 && !strings.ContainsAny(term, " ") {
		return term
	}
	n := v.fresh(prefix)
	fmt.Fprintf(&v.body, "(declare-const %s %s)\n(assert (= %s %s))\n", n, sort, n, term)
	return n
}

func (v *FnVC) havoc(key string) string {
	n := v.fresh(key)
	v.declare(n, v.heapSort(key))
	if bi := v.blocks[v.cur]; bi != nil {
		bi.writes[key] = true
	}
	v.st[key] = n
	return n
}

// ---------- heap keys

func (v *FnVC) fieldKey(st *types.Struct, sname string, i int) string {
	f := st.Field(i)
	key := "F|" + sname + "|" + f.Name()
	if _, ok := v.w.heapSorts[key]; !ok {
		v.w.heapSorts[key] = "(Array Int " + v.sortOf(f.Type()) + ")"
		v.w.heapTypes[key] = f.Type()
	}
	return key
}

func (v *FnVC) elemKey(elem types.Type) string {
	key := "E|" + typeKey(elem)
	if _, ok := v.w.heapSorts[key]; !ok {
		v.w.heapSorts[key] = "(Array Int (Array Int " + v.sortOf(elem) + "))"
		v.w.heapTypes[key] = elem
	}
	return key
}

func (v *FnVC) cellKey(t types.Type) string {
	key := "C|" + typeKey(t)
	if _, ok := v.w.heapSorts[key]; !ok {
		v.w.heapSorts[key] = "(Array Int " + v.sortOf(t) + ")"
		v.w.heapTypes[key] = t
	}
	return key
}

func (v *FnVC) globalKey(g *ssa.Global) string {
	key := "G|" + g.Pkg.Pkg.Name() + "." + g.Name()
	if _, ok := v.w.heapSorts[key]; !ok {
		et := g.Type().(*types.Pointer).Elem()
		v.w.heapSorts[key] = v.sortOf(et)
		v.w.heapTypes[key] = et
	}
	return key
}

func (v *FnVC) ensureNextref() {
	if _, ok := v.w.heapSorts["nextref"]; !ok {
		v.w.heapSorts["nextref"] = "Int"
	}
}

// ---------- assumptions / obligations

func (v *FnVC) assume(t string) {
	if t == "true" || t == "" {
		return
	}
	bi := v.blocks[v.cur]
	n := v.define("as", "Bool", t)
	bi.assumes = append(bi.assumes, n)
	bi.point = v.define("pt", "Bool", and(bi.point, n))
}

func (v *FnVC) hoisted(b *ssa.BasicBlock) []string {
	var hs []string
	hs = append(hs, v.entryAssumes...)
	for d := b.Idom(); d != nil; d = d.Idom() {
		if bi := v.blocks[d]; bi != nil {
			hs = append(hs, bi.assumes...)
		}
	}
	hs = append(hs, v.blocks[b].assumes...)
	return hs
}

func (v *FnVC) oblName(kind, label string) string {
	name := v.fname
	if v.behav != "" {
		name += "[" + v.behav + "]"
	}
	name += "/" + kind
	if label != "" {
		name += "." + label
	}
	v.oblSeen[name]++
	if c := v.oblSeen[name]; c > 1 {
		name += "#" + strconv.Itoa(c)
	}
	return name
}

// oblige registers a proof obligation `goal` at the current point, then assumes it.
func (v *FnVC) oblige(kind, label, goal string, props []string, claimed bool, text string, pos token.Pos) {
	if v.dry {
		v.assumeQuiet(goal)
		return
	}
	if v.behav != "" && !v.behavClause {
		// already proved in the default behaviour under weaker assumptions
		v.assumeQuiet(goal)
		return
	}
	if !claimed {
		// not claimed (partial-correctness contract): assumed and counted
		v.safetyAssumed++
		v.assumeQuiet(goal)
		return
	}
	if goal == "true" {
		return
	}
	bi := v.blocks[v.cur]
	if props == nil {
		props = v.fc.Props
	}
	o := &Obligation{
		Name: v.oblName(kind, label), Kind: kind, Props: props, Func: v.fname, Behav: v.behav,
		Goal: goal, At: bi.point, Hoisted: v.hoisted(v.cur), Claimed: claimed, Text: text, block: v.cur,
		Vars: v.pointVars(),
	}
	if pos.IsValid() {
		o.Pos = v.w.fset.Position(pos)
	}
	v.obls = append(v.obls, o)
	v.assume(goal)
}

func (v *FnVC) assumeQuiet(goal string) { v.assume(goal) }

// safety obligation: claimed unless the contract is partial.
func (v *FnVC) safety(label, goal string, pos token.Pos) {
	if goal == "true" {
		return
	}
	if v.fc.Partial {
		v.safetyAssumed++
		v.assume(goal)
		return
	}
	v.behavClause = false
	v.oblige("safety", label, goal, nil, true, label, pos)
}

// ---------- values

func (v *FnVC) constTerm(c *ssa.Const) Term {
	t := c.Type()
	if c.Value == nil {
		return Term{v.w.sorts.zeroValue(t), t}
	}
	switch c.Value.Kind() {
	case constant.Bool:
		return Term{strconv.FormatBool(constant.BoolVal(c.Value)), t}
	case constant.String:
		return Term{strLit(constant.StringVal(c.Value)), t}
	case constant.Int:
		if i, ok := constant.Int64Val(c.Value); ok {
			return Term{smtInt(i), t}
		}
		if u, ok := constant.Uint64Val(c.Value); ok {
			return Term{strconv.FormatUint(u, 10), t}
		}
		return Term{c.Value.ExactString(), t}
	case constant.Float:
		f, _ := constant.Float64Val(c.Value)
		return Term{strconv.FormatFloat(f, 'f', -1, 64), t}
	}
	v.unsupported("constant " + c.String())
	return Term{"0", t}
}

func (v *FnVC) unsupported(what string) {
	for _, u := range v.unsup {
		if u == what {
			return
		}
	}
	v.unsup = append(v.unsup, what)
}

func (v *FnVC) val(x ssa.Value) Term {
	switch c := x.(type) {
	case *ssa.Const:
		return v.constTerm(c)
	case *ssa.Global:
		// address of a global: opaque distinct ref (negative ids are pre-existing objects)
		return Term{v.w.globalAddr(c), c.Type()}
	case *ssa.Function:
		return Term{v.w.funcRef(c), c.Type()}
	case *ssa.Builtin:
		return Term{"0", c.Type()}
	}
	if t, ok := v.vals[x]; ok {
		return t
	}
	if p, ok := v.places[x]; ok && p.Kind == "cell" {
		return p.Base
	}
	// value not yet defined (e.g. phi operand from a back edge): havoc
	n := v.fresh("undef." + x.Name())
	v.declare(n, v.sortOf(x.Type()))
	t := Term{n, x.Type()}
	v.vals[x] = t
	return t
}

func (v *FnVC) setVal(x ssa.Value, s string) {
	sort := v.sortOf(x.Type())
	n := v.fresh(x.Name())
	fmt.Fprintf(&v.body, "(define-fun %s () %s %s)\n", n, sort, s)
	v.vals[x] = Term{n, x.Type()}
}

func (v *FnVC) freshVal(x ssa.Value) string {
	n := v.fresh(x.Name())
	v.declare(n, v.sortOf(x.Type()))
	v.vals[x] = Term{n, x.Type()}
	v.assume(v.rangeOf(n, x.Type()))
	return n
}

// rangeOf: type invariant of a value (sized integers in range, lengths non-negative, refs allocated).
func (v *FnVC) rangeOf(s string, t types.Type) string {
	switch u := t.Underlying().(type) {
	case *types.Basic:
		lo, hi := intRange(u)
		if lo != "" {
			return fmt.Sprintf("(and (<= %s %s) (<= %s %s))", lo, s, s, hi)
		}
		if u.Info()&types.IsString != 0 {
			return fmt.Sprintf("(and (>= (s_len %s) 0) (>= (s_off %s) 0))", s, s)
		}
	case *types.Slice:
		return fmt.Sprintf("(and (>= (sl_len %s) 0) (<= (sl_len %s) (sl_cap %s)) (>= (sl_off %s) 0) (>= (sl_ref %s) 0) (=> (= (sl_ref %s) 0) (= (sl_cap %s) 0)))", s, s, s, s, s, s, s)
	case *types.Pointer:
		// nil, an object (objects are spaced 1024 apart, so inner addresses stay positive), or a package-level address
		return fmt.Sprintf("(or (= %s 0) (>= %s 1024) (< %s (- 1000)))", s, s, s)
	case *types.Struct:
		// a struct value: the ranges of its fields (one level; nested structs recurse)
		name := v.sortOf(t)
		var parts []string
		for i := 0; i < u.NumFields(); i++ {
			f := u.Field(i)
			if r := v.rangeOf(fmt.Sprintf("(%s %s)", fieldAcc(name, f.Name(), i), s), f.Type()); r != "true" {
				parts = append(parts, r)
			}
		}
		if len(parts) > 0 {
			return "(and " + strings.Join(parts, " ") + ")"
		}
	}
	return "true"
}

func intRange(u *types.Basic) (string, string) {
	switch u.Kind() {
	case types.Uint8:
		return "0", "255"
	case types.Uint16:
		return "0", "65535"
	case types.Uint32:
		return "0", "4294967295"
	case types.Uint, types.Uint64, types.Uintptr:
		return "0", "18446744073709551615"
	case types.Int8:
		return "(- 128)", "127"
	case types.Int16:
		return "(- 32768)", "32767"
	case types.Int32:
		return "(- 2147483648)", "2147483647"
	case types.Int, types.Int64:
		return "(- 9223372036854775808)", "9223372036854775807"
	}
	return "", ""
}

// ---------- places

func derefStruct(t types.Type) (*types.Struct, string, bool) {
	p, ok := t.Underlying().(*types.Pointer)
	if !ok {
		return nil, "", false
	}
	st, ok := p.Elem().Underlying().(*types.Struct)
	if !ok {
		return nil, "", false
	}
	return st, structName(p.Elem()), true
}

func (v *FnVC) placeOf(x ssa.Value) *Place {
	if p, ok := v.places[x]; ok {
		return p
	}
	// a pointer value: resolve by its element type
	pt, ok := x.Type().Underlying().(*types.Pointer)
	if !ok {
		v.unsupported("deref of non-pointer " + x.String())
		return &Place{Kind: "cell", Base: v.val(x), Typ: types.Typ[types.Int]}
	}
	if g, ok := x.(*ssa.Global); ok {
		return &Place{Kind: "global", Key: v.globalKey(g), Typ: pt.Elem()}
	}
	return &Place{Kind: "cell", Base: v.val(x), Typ: pt.Elem()}
}

func (v *FnVC) nonNil(ref Term, what string, pos token.Pos) {
	v.safety("nil-deref."+what, fmt.Sprintf("(not (= %s 0))", ref.S), pos)
}

// load reads the content of a place.
func (v *FnVC) load(p *Place, pos token.Pos) string {
	switch p.Kind {
	case "local":
		cur := v.get(p.Key)
		t := cur
		for i, f := range p.Path {
			pt := p.PathT[i]
			if p.IsArr && i == 0 {
				_ = f
			}
			st := pt.Underlying().(*types.Struct)
			t = fmt.Sprintf("(%s %s)", fieldAcc(v.sortOf(pt), st.Field(f).Name(), f), t)
		}
		if p.Idx != "" {
			t = fmt.Sprintf("(select %s %s)", t, p.Idx)
		}
		return t
	case "global":
		return v.get(p.Key)
	case "field":
		return v.loadRef(p.Base.S, p.ST, p.SName, p.Field)
	case "elem":
		key := v.elemKey(p.elemType())
		return v.project(fmt.Sprintf("(select (select %s (sl_ref %s)) (idx %s %s))", v.get(key), p.Base.S, p.Base.S, p.Idx), p)
	case "arrelem":
		key := v.elemKey(p.elemType())
		return v.project(fmt.Sprintf("(select (select %s %s) %s)", v.get(key), p.Base.S, p.Idx), p)
	case "cell":
		if st, ok := p.Typ.Underlying().(*types.Struct); ok {
			return v.loadStruct(p.Base.S, st, structName(p.Typ), p.Typ)
		}
		if at, ok := p.Typ.Underlying().(*types.Array); ok {
			key := v.elemKey(at.Elem())
			return fmt.Sprintf("(select %s %s)", v.get(key), p.Base.S)
		}
		key := v.cellKey(p.Typ)
		return fmt.Sprintf("(select %s %s)", v.get(key), p.Base.S)
	}
	panic("load: bad place " + p.Kind)
}

// loadRef reads field i of the struct object at ref.
func (v *FnVC) loadRef(ref string, st *types.Struct, sname string, i int) string {
	ft := st.Field(i).Type()
	if fst, ok := ft.Underlying().(*types.Struct); ok {
		return v.loadStruct(v.subRef(ref, sname, st, i), fst, structName(ft), ft)
	}
	key := v.fieldKey(st, sname, i)
	return fmt.Sprintf("(select %s %s)", v.get(key), ref)
}

func (v *FnVC) loadStruct(ref string, st *types.Struct, sname string, t types.Type) string {
	sort := v.sortOf(t)
	if st.NumFields() == 0 {
		return "mk_" + sort
	}
	var b strings.Builder
	b.WriteString("(mk_" + sort)
	for i := 0; i < st.NumFields(); i++ {
		b.WriteString(" " + v.loadRef(ref, st, sname, i))
	}
	b.WriteString(")")
	return b.String()
}

// subRef: address of the struct embedded by value at field i of the object at ref.
// References are spaced 1024 apart, so an inner address ref+offset stays inside its
// object and is "allocated" exactly when the outer object is.
func (v *FnVC) subRef(ref, sname string, st *types.Struct, i int) string {
	return fmt.Sprintf("(+ %s %d)", ref, slotOffset(st, i))
}

func slotSize(t types.Type) int {
	if st, ok := t.Underlying().(*types.Struct); ok {
		n := 1
		for i := 0; i < st.NumFields(); i++ {
			n += slotSize(st.Field(i).Type())
		}
		return n
	}
	return 1
}

func slotOffset(st *types.Struct, i int) int {
	off := 1
	for j := 0; j < i; j++ {
		off += slotSize(st.Field(j).Type())
	}
	return off
}

func (v *FnVC) storeRef(ref string, st *types.Struct, sname string, i int, val string) {
	ft := st.Field(i).Type()
	if fst, ok := ft.Underlying().(*types.Struct); ok {
		sub := v.subRef(ref, sname, st, i)
		fs := v.sortOf(ft)
		for j := 0; j < fst.NumFields(); j++ {
			v.storeRef(sub, fst, structName(ft), j, fmt.Sprintf("(%s %s)", fieldAcc(fs, fst.Field(j).Name(), j), val))
		}
		return
	}
	key := v.fieldKey(st, sname, i)
	v.set(key, v.heapSort(key), fmt.Sprintf("(store %s %s %s)", v.get(key), ref, val))
}

func (v *FnVC) store(p *Place, val string, pos token.Pos) {
	switch p.Kind {
	case "local":
		cur := v.get(p.Key)
		v.set(p.Key, v.heapSort(p.Key), v.updatePath(cur, p, 0, val))
	case "global":
		v.set(p.Key, v.heapSort(p.Key), val)
	case "field":
		v.storeRef(p.Base.S, p.ST, p.SName, p.Field, val)
	case "elem":
		key := v.elemKey(p.elemType())
		h := v.get(key)
		ref := fmt.Sprintf("(sl_ref %s)", p.Base.S)
		if len(p.Path) > 0 {
			old := fmt.Sprintf("(select (select %s %s) (idx %s %s))", h, ref, p.Base.S, p.Idx)
			q := *p
			q.Idx = ""
			val = v.updatePath(old, &q, 0, val)
		}
		v.set(key, v.heapSort(key), fmt.Sprintf("(store %s %s (store (select %s %s) (idx %s %s) %s))", h, ref, h, ref, p.Base.S, p.Idx, val))
	case "arrelem":
		key := v.elemKey(p.elemType())
		h := v.get(key)
		if len(p.Path) > 0 {
			old := fmt.Sprintf("(select (select %s %s) %s)", h, p.Base.S, p.Idx)
			q := *p
			q.Idx = ""
			val = v.updatePath(old, &q, 0, val)
		}
		v.set(key, v.heapSort(key), fmt.Sprintf("(store %s %s (store (select %s %s) %s %s))", h, p.Base.S, h, p.Base.S, p.Idx, val))
	case "cell":
		if st, ok := p.Typ.Underlying().(*types.Struct); ok {
			sname := structName(p.Typ)
			sort := v.sortOf(p.Typ)
			for i := 0; i < st.NumFields(); i++ {
				v.storeRef(p.Base.S, st, sname, i, fmt.Sprintf("(%s %s)", fieldAcc(sort, st.Field(i).Name(), i), val))
			}
			return
		}
		if at, ok := p.Typ.Underlying().(*types.Array); ok {
			key := v.elemKey(at.Elem())
			v.set(key, v.heapSort(key), fmt.Sprintf("(store %s %s %s)", v.get(key), p.Base.S, val))
			return
		}
		key := v.cellKey(p.Typ)
		v.set(key, v.heapSort(key), fmt.Sprintf("(store %s %s %s)", v.get(key), p.Base.S, val))
	default:
		panic("store: bad place " + p.Kind)
	}
}

// elemType: the element type of the slice/array an elem place points into.
func (p *Place) elemType() types.Type {
	if len(p.PathT) > 0 {
		return p.PathT[0]
	}
	return p.Typ
}

// project applies the field path of an element place to the element value.
func (v *FnVC) project(t string, p *Place) string {
	for i, f := range p.Path {
		pt := p.PathT[i]
		st := pt.Underlying().(*types.Struct)
		t = fmt.Sprintf("(%s %s)", fieldAcc(v.sortOf(pt), st.Field(f).Name(), f), t)
	}
	return t
}

// updatePath rebuilds a struct-valued local with one nested field replaced.
func (v *FnVC) updatePath(cur string, p *Place, depth int, val string) string {
	if depth == len(p.Path) {
		if p.Idx != "" {
			return fmt.Sprintf("(store %s %s %s)", cur, p.Idx, val)
		}
		return val
	}
	pt := p.PathT[depth]
	st := pt.Underlying().(*types.Struct)
	sort := v.sortOf(pt)
	var b strings.Builder
	b.WriteString("(mk_" + sort)
	for i := 0; i < st.NumFields(); i++ {
		acc := fmt.Sprintf("(%s %s)", fieldAcc(sort, st.Field(i).Name(), i), cur)
		if i == p.Path[depth] {
			b.WriteString(" " + v.updatePath(acc, p, depth+1, val))
		} else {
			b.WriteString(" " + acc)
		}
	}
	b.WriteString(")")
	return b.String()
}

// alloc returns a fresh reference.
func (v *FnVC) allocRef(prefix string) string {
	v.ensureNextref()
	r := v.define(prefix, "Int", v.get("nextref"))
	v.set("nextref", "Int", fmt.Sprintf("(+ %s 1024)", r))
	return r
}

// ---------- driver

func (v *FnVC) run() {
	fn := v.fn
	v.computeLoops()
	// pass 1 (dry) to learn which state keys each block writes
	v.dry = true
	v.translateAll()
	writes := map[*ssa.BasicBlock]map[string]bool{}
	for b, bi := range v.blocks {
		writes[b] = bi.writes
	}
	for _, l := range v.loops {
		l.writes = map[string]bool{}
		for b := range l.blocks {
			for k := range writes[b] {
				l.writes[k] = true
			}
		}
	}
	// pass 2: real
	v.dry = false
	v.body.Reset()
	v.nctr = 0
	v.obls = nil
	v.oblSeen = map[string]int{}
	v.translateAll()
	_ = fn
}

func (v *FnVC) computeLoops() {
	v.loops = map[*ssa.BasicBlock]*loopInfo{}
	fn := v.fn
	for _, b := range fn.Blocks {
		for _, s := range b.Succs {
			if s.Dominates(b) {
				l := v.loops[s]
				if l == nil {
					l = &loopInfo{head: s, blocks: map[*ssa.BasicBlock]bool{s: true}}
					v.loops[s] = l
				}
				l.backs = append(l.backs, b)
				// natural loop: nodes reaching b without passing through s
				stack := []*ssa.BasicBlock{b}
				for len(stack) > 0 {
					n := stack[len(stack)-1]
					stack = stack[:len(stack)-1]
					if l.blocks[n] {
						continue
					}
					l.blocks[n] = true
					stack = append(stack, n.Preds...)
				}
			}
		}
	}
	var heads []*ssa.BasicBlock
	for h := range v.loops {
		heads = append(heads, h)
	}
	sort.Slice(heads, func(i, j int) bool { return heads[i].Index < heads[j].Index })
	for i, h := range heads {
		l := v.loops[h]
		l.key = []string{strconv.Itoa(i + 1)}
		c := h.Comment
		if c != "" && !strings.Contains(c, ".") {
			l.key = append(l.key, c)
		}
	}
}

func (v *FnVC) isBackEdge(from, to *ssa.BasicBlock) bool {
	l := v.loops[to]
	if l == nil {
		return false
	}
	for _, b := range l.backs {
		if b == from {
			return true
		}
	}
	return false
}

func (v *FnVC) order() []*ssa.BasicBlock {
	// reverse postorder ignoring back edges
	seen := map[*ssa.BasicBlock]bool{}
	var post []*ssa.BasicBlock
	var dfs func(b *ssa.BasicBlock)
	dfs = func(b *ssa.BasicBlock) {
		seen[b] = true
		for _, s := range b.Succs {
			if !seen[s] && !v.isBackEdge(b, s) {
				dfs(s)
			}
		}
		post = append(post, b)
	}
	dfs(v.fn.Blocks[0])
	if v.fn.Recover != nil && !seen[v.fn.Recover] {
		// recover block handled separately
	}
	for i, j := 0, len(post)-1; i < j; i, j = i+1, j-1 {
		post[i], post[j] = post[j], post[i]
	}
	return post
}

func (v *FnVC) translateAll() {
	fn := v.fn
	v.vals = map[ssa.Value]Term{}
	v.places = map[ssa.Value]*Place{}
	v.blocks = map[*ssa.BasicBlock]*blockInfo{}
	v.initial = State{}
	v.params = map[string]Term{}
	v.callCnt = map[string]int{}
	v.storeCnt = map[string]int{}
	if v.usedClause == nil {
		v.usedClause = map[*Clause]bool{}
		v.usedGhostSet = map[int]bool{}
		v.staleGhostSet = map[int]string{}
	}
	v.modelVs = nil
	v.entryAssumes = nil
	v.retCnt = 0
	v.panicCnt = 0
	v.deferred = nil
	for _, b := range fn.Blocks {
		v.blocks[b] = &blockInfo{edgeOut: map[int]string{}, writes: map[string]bool{}}
	}
	// entry
	entry := fn.Blocks[0]
	v.cur = entry
	v.st = State{}
	bi := v.blocks[entry]
	bi.reach = "true"
	bi.point = "true"
	v.ensureNextref()
	for _, p := range fn.Params {
		n := "|p." + sanitize(p.Name()) + "|"
		v.declare(n, v.sortOf(p.Type()))
		t := Term{n, p.Type()}
		v.vals[p] = t
		v.params[p.Name()] = t
		v.addModelVar(p.Name(), t)
	}
	for i, fv := range fn.FreeVars {
		if et, ok := immutableCapture(fn, i); ok {
			// a captured variable that is assigned exactly once (before the closure is made):
			// the closure sees a constant
			key := "L:fv." + fv.Name()
			n := "|fv." + sanitize(fv.Name()) + "|"
			v.declare(n, v.sortOf(et))
			v.localSorts[key] = v.sortOf(et)
			v.localTypes[key] = et
			v.places[fv] = &Place{Kind: "local", Key: key, Typ: et}
			v.st[key] = n
			v.params[fv.Name()] = Term{n, et}
			v.assume(v.rangeOf(n, et))
			continue
		}
		n := "|fv." + sanitize(fv.Name()) + "|"
		v.declare(n, v.sortOf(fv.Type()))
		v.vals[fv] = Term{n, fv.Type()}
		v.params[fv.Name()] = Term{n, fv.Type()}
	}
	for _, p := range fn.Params {
		v.assume(v.rangeOf(v.vals[p].S, p.Type()))
		v.assume(v.allocated(v.vals[p]))
	}
	v.assume(fmt.Sprintf("(>= %s 1024)", v.get("nextref")))
	// preconditions
	v.initEnv = v.newEnv(State{}, nil) // entry state: every heap at its initial version
	for _, cl := range v.fc.Clauses {
		if cl.Kind == "requires" && (cl.Behav == "" || cl.Behav == v.behav) {
			t := v.specBool(cl.E, v.initEnv, cl)
			v.assume(t)
		}
	}
	v.ghostSets("entry", v.initEnv)
	for _, ri := range v.fc.ReplayInputs {
		e, err := ParseExpr(ri[1])
		if err != nil {
			panic(specError{msg: "replay-input " + ri[0] + ": " + err.Error()})
		}
		t := v.specTerm(e, v.initEnv, nil)
		v.modelVs = append(v.modelVs, ModelVar{ri[0], v.define("ri", v.sortOf(t.T), t.S), "int"})
	}
	v.entryAssumes = append([]string{}, bi.assumes...)
	if !v.dry {
		// vacuity: the precondition must be satisfiable
		v.cover("requires-satisfiable", "true")
	}
	for _, b := range v.order() {
		v.translateBlock(b)
	}
	// axioms of spec functions (closed formulas, assumed globally)
	if !v.dry {
		env := v.newEnv(State{}, nil)
		env.callee = true
		for _, ax := range v.w.cs.Axioms {
			if p := v.w.pkgByPath(ax.Pkg); p != nil {
				env.pkg = p
			}
			t := v.specBoolE(ax.E, env, &Clause{Text: ax.Text, File: "axiom " + ax.Name})
			fmt.Fprintf(&v.body, "(assert %s) ; axiom %s\n", t, ax.Name)
		}
	}
}

func (v *FnVC) addModelVar(name string, t Term) {
	switch u := t.T.Underlying().(type) {
	case *types.Basic:
		switch {
		case u.Info()&types.IsString != 0:
			v.modelVs = append(v.modelVs, ModelVar{name, t.S, "string"})
		case u.Info()&types.IsBoolean != 0:
			v.modelVs = append(v.modelVs, ModelVar{name, t.S, "bool"})
		case u.Info()&types.IsInteger != 0:
			v.modelVs = append(v.modelVs, ModelVar{name, t.S, "int"})
		}
	}
}

func (v *FnVC) allocated(t Term) string {
	return v.allocatedAt(t, v.get("nextref"))
}

func (v *FnVC) allocatedAt(t Term, next string) string {
	if t.T == nil {
		return "true"
	}
	switch t.T.Underlying().(type) {
	case *types.Pointer:
		return fmt.Sprintf("(< %s %s)", t.S, next)
	case *types.Slice:
		return fmt.Sprintf("(< (sl_ref %s) %s)", t.S, next)
	case *types.Struct:
		// a struct value: every reference it holds
		st := t.T.Underlying().(*types.Struct)
		sort := v.sortOf(t.T)
		var parts []string
		for i := 0; i < st.NumFields(); i++ {
			f := st.Field(i)
			a := v.allocatedAt(Term{fmt.Sprintf("(%s %s)", fieldAcc(sort, f.Name(), i), t.S), f.Type()}, next)
			if a != "true" {
				parts = append(parts, a)
			}
		}
		return and(parts...)
	}
	return "true"
}

func (v *FnVC) cover(label, extra string) {
	bi := v.blocks[v.cur]
	o := &Obligation{Name: v.oblName("cover", label), Kind: "cover", Props: v.fc.Props, Func: v.fname, Behav: v.behav,
		Goal: extra, At: bi.point, Hoisted: v.hoisted(v.cur), Claimed: true, Cover: true, block: v.cur}
	v.obls = append(v.obls, o)
}

func (v *FnVC) translateBlock(b *ssa.BasicBlock) {
	bi := v.blocks[b]
	v.cur = b
	if b.Index != 0 {
		v.enterBlock(b)
	}
	for _, ins := range b.Instrs {
		v.instr(ins)
	}
	bi.out = v.st
	bi.done = true
}

// enterBlock computes reach predicate and in-state from predecessors.
func (v *FnVC) enterBlock(b *ssa.BasicBlock) {
	bi := v.blocks[b]
	loop := v.loops[b]
	type inc struct {
		edge string
		st   State
		from *ssa.BasicBlock
	}
	var ins []inc
	for _, p := range b.Preds {
		pi := v.blocks[p]
		isBack := v.isBackEdge(p, b)
		if !pi.done {
			if !isBack {
				// unreachable predecessor (e.g. recover block)
				continue
			}
			continue
		}
		if isBack {
			continue
		}
		for si, s := range p.Succs {
			if s == b {
				ins = append(ins, inc{pi.edgeOut[si], pi.out, p})
			}
		}
	}
	var edges []string
	for _, in := range ins {
		edges = append(edges, in.edge)
	}
	bi.reach = v.define("reach.b"+strconv.Itoa(b.Index), "Bool", or(edges...))
	bi.point = bi.reach
	// merge states
	st := State{}
	var mergedOK []string
	keys := map[string]bool{}
	for _, in := range ins {
		for k := range in.st {
			keys[k] = true
		}
	}
	for _, k := range sortedKeys(keys) {
		var vals []string
		same := true
		missing := false
		for _, in := range ins {
			t, ok := in.st[k]
			if !ok {
				if strings.HasPrefix(k, "L:") {
					missing = true
					break
				}
				t = v.init(k)
			}
			vals = append(vals, t)
			if t != vals[0] {
				same = false
			}
		}
		if missing {
			continue // local not defined on every path: out of scope here
		}
		if same {
			st[k] = vals[0]
			continue
		}
		term := vals[len(vals)-1]
		for i := len(vals) - 2; i >= 0; i-- {
			term = fmt.Sprintf("(ite %s %s %s)", ins[i].edge, vals[i], term)
		}
		if hs := v.heapSort(k); strings.HasPrefix(hs, "(Array") {
			st[k] = v.defineConst(k+".b"+strconv.Itoa(b.Index), hs, term)
		} else {
			st[k] = v.define(k+".b"+strconv.Itoa(b.Index), hs, term)
		}
		// every incoming version of a modifies-since heap already satisfies the frame condition (cut points after
		// the calls that produced them): so does the merged one
		if v.frameOK != nil && v.isSinceKey(k) {
			all := true
			for _, t := range vals {
				if !v.frameOK[t] && t != v.init(k) {
					all = false
				}
			}
			if all {
				mergedOK = append(mergedOK, k)
			}
		}
	}
	v.st = st
	for _, k := range mergedOK {
		if g, ok := v.frameGoals([]string{k})[k]; ok {
			v.assume(g)
			v.frameOK[st[k]] = true
		}
	}
	// redundant but cheap for the solver: the allocation pointer only grows, so at a merge it is at least what it
	// was at the end of the immediate dominator (saves a case split over the incoming edges)
	if d := b.Idom(); d != nil && len(ins) > 1 {
		if di := v.blocks[d]; di != nil && di.done {
			if dn, ok := di.out["nextref"]; ok {
				if mn, ok2 := st["nextref"]; ok2 && mn != dn {
					v.assume(fmt.Sprintf("(>= %s %s)", mn, dn))
				}
			}
		}
	}
	// phis
	for _, insn := range b.Instrs {
		phi, ok := insn.(*ssa.Phi)
		if !ok {
			break
		}
		var vals []string
		var es []string
		for i, p := range b.Preds {
			if v.isBackEdge(p, b) || !v.blocks[p].done {
				continue
			}
			pi := v.blocks[p]
			for si, s := range p.Succs {
				if s == b {
					// evaluate the operand in the predecessor's context
					vals = append(vals, v.val(phi.Edges[i]).S)
					es = append(es, pi.edgeOut[si])
					break
				}
			}
		}
		if loop != nil {
			v.freshVal(phi)
			continue
		}
		if len(vals) == 0 {
			v.freshVal(phi)
			continue
		}
		term := vals[len(vals)-1]
		for i := len(vals) - 2; i >= 0; i-- {
			term = fmt.Sprintf("(ite %s %s %s)", es[i], vals[i], term)
		}
		v.setVal(phi, term)
	}
	if loop != nil {
		v.enterLoop(b, loop)
	}
}

func (v *FnVC) loopClauses(l *loopInfo, kind string) []*Clause {
	var out []*Clause
	for _, cl := range v.fc.Clauses {
		if cl.Kind != kind || (cl.Behav != "" && cl.Behav != v.behav) {
			continue
		}
		for _, k := range l.key {
			if cl.Loop == k {
				out = append(out, cl)
				v.usedClause[cl] = true
			}
		}
	}
	return out
}

func (v *FnVC) loopLabel(l *loopInfo) string {
	return l.key[len(l.key)-1]
}

// enterLoop: at a loop head. The merged entry state is in v.st.  Check the
// invariants on entry, havoc what the loop writes, assume the invariants.
func (v *FnVC) enterLoop(b *ssa.BasicBlock, l *loopInfo) {
	invs := v.loopClauses(l, "invariant")
	lab := v.loopLabel(l)
	if len(invs) == 0 && !v.dry {
		v.notes = append(v.notes, fmt.Sprintf("loop %s has no invariant (havoc only)", lab))
	}
	pos := v.blockPos(b)
	env := v.newEnvAt(v.st, pos)
	l.entrySt = v.st.clone()
	env.loopEntry = l.entrySt
	for i, cl := range invs {
		for j, c := range v.flatten(cl.E) {
			t := v.specBoolE(c, env, cl)
			v.behavClause = cl.Behav != ""
			v.oblige("inv["+lab+"]", v.clauseLabel(cl, i, j)+"/init", t, cl.Props, true, c.String(), token.NoPos)
		}
	}
	// automatic frame invariant of the loop: what the loop writes stays unchanged on
	// entry-allocated objects outside the modifies clause
	if !v.dry {
		goals := v.frameGoals(sortedKeys(l.writes))
		for _, key := range sortedKeys(goals) {
			v.behavClause = false
			v.oblige("inv["+lab+"]", "frame."+sanitize(key)+"/init", goals[key], nil, true, "loop frame: "+key, token.NoPos)
		}
	}
	// havoc
	preNext := v.get("nextref")
	for _, k := range sortedKeys(l.writes) {
		if _, ok := v.st[k]; !ok && strings.HasPrefix(k, "L:") {
			continue // local declared inside the loop
		}
		v.havoc(k)
	}
	if l.writes["nextref"] {
		// allocation only grows
		v.assume(fmt.Sprintf("(>= %s %s)", v.st["nextref"], preNext))
	}
	// type ranges for havocked locals
	for _, k := range sortedKeys(l.writes) {
		if t, ok := v.localTypes[k]; ok {
			if cur, ok := v.st[k]; ok {
				v.assume(v.rangeOf(cur, t))
				v.assume(v.allocated(Term{cur, t}))
			}
		}
	}
	if !v.dry {
		goals := v.frameGoals(sortedKeys(l.writes))
		for _, key := range sortedKeys(goals) {
			v.assume(goals[key])
		}
	}
	env = v.newEnvAt(v.st, pos)
	env.loopEntry = l.entrySt
	for _, cl := range invs {
		for _, c := range v.flatten(cl.E) {
			v.assume(v.specBoolE(c, env, cl))
		}
	}
	l.decr = nil
	for _, cl := range v.loopClauses(l, "decreases") {
		t := v.specTerm(cl.E, env, cl)
		l.decr = append(l.decr, v.define("measure", "Int", t.S))
	}
	if !v.dry {
		v.cover("loop["+lab+"]-reachable", "true")
	}
}

func (v *FnVC) clauseLabel(cl *Clause, i, j int) string {
	lab := cl.Label
	if lab == "" {
		lab = strconv.Itoa(i + 1)
	}
	if j > 0 {
		lab += "." + strconv.Itoa(j+1)
	}
	return lab
}

func (v *FnVC) blockPos(b *ssa.BasicBlock) token.Pos {
	var best token.Pos
	for _, ins := range b.Instrs {
		if p := ins.Pos(); p.IsValid() && p > best {
			best = p
		}
	}
	if best.IsValid() {
		return best
	}
	// search successors
	for _, s := range b.Succs {
		for _, ins := range s.Instrs {
			if p := ins.Pos(); p.IsValid() {
				return p
			}
		}
	}
	return token.NoPos
}

// backEdge: at the end of block `from` jumping back to loop head `to`.
func (v *FnVC) backEdge(from, to *ssa.BasicBlock, edge string) {
	l := v.loops[to]
	lab := v.loopLabel(l)
	save := v.blocks[from].point
	saveAssumes := append([]string{}, v.blocks[from].assumes...)
	defer func() {
		// what is established on the back edge must not leak to the other successors of the block
		v.blocks[from].assumes = saveAssumes
	}()
	v.blocks[from].point = v.define("pt", "Bool", and(save, edge))
	env := v.newEnvAt(v.st, v.blockPos(to))
	env.loopEntry = l.entrySt
	suffix := "/preserve@b" + strconv.Itoa(from.Index)
	if len(l.backs) == 1 {
		suffix = "/preserve"
	} else if c := from.Comment; c != "" {
		suffix = "/preserve@" + c + "." + strconv.Itoa(v.backOrdinal(l, from))
	}
	for i, cl := range v.loopClauses(l, "invariant") {
		for j, c := range v.flatten(cl.E) {
			t := v.specBoolE(c, env, cl)
			v.behavClause = cl.Behav != ""
			v.oblige("inv["+lab+"]", v.clauseLabel(cl, i, j)+suffix, t, cl.Props, true, c.String(), token.NoPos)
		}
	}
	if !v.dry {
		goals := v.frameGoals(sortedKeys(l.writes))
		for _, key := range sortedKeys(goals) {
			v.behavClause = false
			v.oblige("inv["+lab+"]", "frame."+sanitize(key)+suffix, goals[key], nil, true, "loop frame: "+key, token.NoPos)
		}
	}
	for i, cl := range v.loopClauses(l, "decreases") {
		t := v.specTerm(cl.E, env, cl)
		if i < len(l.decr) {
			v.behavClause = cl.Behav != ""
			v.oblige("decreases["+lab+"]", strconv.Itoa(i+1)+suffix, fmt.Sprintf("(and (>= %s 0) (< %s %s))", l.decr[i], t.S, l.decr[i]), cl.Props, true, cl.Text, token.NoPos)
		}
	}
	v.blocks[from].point = save
}

func (v *FnVC) backOrdinal(l *loopInfo, from *ssa.BasicBlock) int {
	bs := append([]*ssa.BasicBlock{}, l.backs...)
	sort.Slice(bs, func(i, j int) bool { return bs[i].Index < bs[j].Index })
	for i, b := range bs {
		if b == from {
			return i + 1
		}
	}
	return 0
}

// flatten splits an expression into atomic conjuncts: top-level &&, calls of
// predicates whose body is a conjunction, and conjunctions in the consequent of
// an implication or under a universal quantifier (one query per conjunct).
func (v *FnVC) flatten(e Expr) []Expr {
	switch x := e.(type) {
	case *Binary:
		switch x.Op {
		case "&&":
			return append(v.flatten(x.X), v.flatten(x.Y)...)
		case "==>":
			var out []Expr
			for _, c := range v.flatten(x.Y) {
				out = append(out, &Binary{"==>", x.X, c})
			}
			return out
		}
	case *Quant:
		if x.Forall {
			var out []Expr
			for _, c := range v.flatten(x.Body) {
				out = append(out, &Quant{true, x.Vars, c, x.Triggers})
			}
			return out
		}
	case *CallE:
		if sf, ok := v.w.cs.Specs[x.Fun]; ok && sf.Body != nil && !sf.Opaque && len(x.Args) == len(sf.Params) {
			m := map[string]Expr{}
			for i, p := range sf.Params {
				m[p.Name] = x.Args[i]
			}
			parts := v.flatten(subst(sf.Body, m))
			if len(parts) > 1 {
				return parts
			}
		}
	}
	return []Expr{e}
}

// pointVars: parameters plus the scalar source variables live at the current point.
func (v *FnVC) pointVars() []ModelVar {
	out := append([]ModelVar{}, v.modelVs...)
	for _, k := range sortedKeys(v.st) {
		if !strings.HasPrefix(k, "L:") {
			continue
		}
		name := v.localNames[k]
		if name == "" {
			continue
		}
		t := v.localTypes[k]
		b, ok := t.Underlying().(*types.Basic)
		if !ok {
			continue
		}
		switch {
		case b.Info()&types.IsBoolean != 0:
			out = append(out, ModelVar{"local:" + name, v.st[k], "bool"})
		case b.Info()&types.IsInteger != 0:
			out = append(out, ModelVar{"local:" + name, v.st[k], "int"})
		}
	}
	return out
}

// immutableCapture: free variable i of fn is bound to a variable of the enclosing
// function that is stored exactly once and otherwise only read or captured.
func immutableCapture(fn *ssa.Function, i int) (types.Type, bool) {
	parent := fn.Parent()
	if parent == nil {
		return nil, false
	}
	var binding ssa.Value
	for _, b := range parent.Blocks {
		for _, ins := range b.Instrs {
			if mc, ok := ins.(*ssa.MakeClosure); ok && mc.Fn == fn && i < len(mc.Bindings) {
				binding = mc.Bindings[i]
			}
		}
	}
	if binding == nil {
		return nil, false
	}
	switch b := binding.(type) {
	case *ssa.Alloc:
		stores := 0
		for _, r := range *b.Referrers() {
			switch x := r.(type) {
			case *ssa.Store:
				if x.Addr != b {
					return nil, false // address escapes into memory
				}
				stores++
			case *ssa.MakeClosure:
				cf, _ := x.Fn.(*ssa.Function)
				for k, bb := range x.Bindings {
					if bb == ssa.Value(b) && cf != nil && k < len(cf.FreeVars) && storesThrough(cf, cf.FreeVars[k]) {
						return nil, false
					}
				}
			case *ssa.UnOp, *ssa.DebugRef:
			default:
				return nil, false
			}
		}
		if stores > 1 {
			return nil, false
		}
		// nested closures capturing the same cell must not store to it either
		return b.Type().(*types.Pointer).Elem(), true
	case *ssa.FreeVar:
		// captured from an outer closure: immutable if it is so there
		for j, fv := range parent.FreeVars {
			if fv == b {
				return immutableCapture(parent, j)
			}
		}
	}
	return nil, false
}

// storesThrough: some instruction of fn (or of a closure it makes) stores through fv.
func storesThrough(fn *ssa.Function, fv *ssa.FreeVar) bool {
	for _, r := range *fv.Referrers() {
		switch x := r.(type) {
		case *ssa.Store:
			return true
		case *ssa.MakeClosure:
			cf, _ := x.Fn.(*ssa.Function)
			for k, bb := range x.Bindings {
				if bb == ssa.Value(fv) && cf != nil && k < len(cf.FreeVars) && storesThrough(cf, cf.FreeVars[k]) {
					return true
				}
			}
		case *ssa.UnOp, *ssa.DebugRef:
		default:
			return true
		}
	}
	return false
}

// ghostSets executes the contract's ghost assignments anchored at `anchor`.
func (v *FnVC) ghostSets(anchor string, env *Env) {
	for i, gs := range v.fc.GhostSets {
		if gs[0] != anchor {
			continue
		}
		v.usedGhostSet[i] = true
		e2 := env
		if e2 == v.initEnv {
			e2 = v.newEnv(v.st, v.initEnv)
			e2.entry = true
		}
		v.ghostAssignSafe(i, gs[1], gs[2], e2)
	}
}

func (v *FnVC) isSinceKey(k string) bool {
	if v.fc == nil || v.fc.SinceGhost == "" {
		return false
	}
	if v.sinceCache == nil {
		v.sinceCache = v.sinceKeys(v.fc)
	}
	return v.sinceCache[k]
}
