package main

// World: loaded program, contracts, shared SMT declarations.

import (
	"fmt"
	"go/ast"
	"go/token"
	"go/types"
	"os"
	"sort"
	"strings"

	"golang.org/x/tools/go/packages"
	"golang.org/x/tools/go/ssa"
	"golang.org/x/tools/go/ssa/ssautil"
)

type World struct {
	repo          string
	fset          *token.FileSet
	pkgs          []*packages.Package
	prog          *ssa.Program
	modulePath    string
	spkgs         map[string]*ssa.Package // by path
	byName        map[string]*ssa.Package // by package name
	cs            *Contracts
	sorts         *Sorts
	heapSorts     map[string]string
	heapTypes     map[string]types.Type
	ghostKeys     map[string]bool
	decls         strings.Builder
	declared      map[string]bool
	tags          map[string]int
	tagTypes      []types.Type
	needClosure   bool
	funcs         map[string]*ssa.Function // key -> function
	funcIDs       map[*ssa.Function]int
	globalIDs     map[*ssa.Global]int
	pureExt       map[string]bool
	ifaces        map[string]types.Type
	recInProgress map[string]bool
}

func LoadWorld(repo string, extraSpecs []string) (*World, error) {
	w := &World{repo: repo, sorts: newSorts(), heapSorts: map[string]string{}, heapTypes: map[string]types.Type{}, ghostKeys: map[string]bool{},
		declared: map[string]bool{}, tags: map[string]int{}, funcs: map[string]*ssa.Function{}, funcIDs: map[*ssa.Function]int{}, globalIDs: map[*ssa.Global]int{},
		spkgs: map[string]*ssa.Package{}, byName: map[string]*ssa.Package{}, pureExt: map[string]bool{}, ifaces: map[string]types.Type{}}
	w.fset = token.NewFileSet()
	cfg := &packages.Config{Mode: packages.LoadAllSyntax, Dir: repo, BuildFlags: []string{"-tags=verif"}, Fset: w.fset,
		Env: append(os.Environ(), "GOFLAGS=-mod=mod", "GOPROXY=off")}
	pkgs, err := packages.Load(cfg, "./...")
	if err != nil {
		return nil, err
	}
	var errs []string
	packages.Visit(pkgs, nil, func(p *packages.Package) {
		for _, e := range p.Errors {
			errs = append(errs, e.Error())
		}
	})
	if len(errs) > 0 {
		return nil, fmt.Errorf("package errors: %s", strings.Join(errs, "; "))
	}
	w.pkgs = pkgs
	prog, _ := ssautil.AllPackages(pkgs, ssa.NaiveForm|ssa.InstantiateGenerics)
	prog.Build()
	w.prog = prog
	w.modulePath = "github.com/tigerwill90/fox"
	for _, sp := range prog.AllPackages() {
		w.spkgs[sp.Pkg.Path()] = sp
		if _, dup := w.byName[sp.Pkg.Name()]; !dup || strings.Contains(sp.Pkg.Path(), "tigerwill90") {
			w.byName[sp.Pkg.Name()] = sp
		}
	}
	for fn := range ssautil.AllFunctions(prog) {
		if fn.Pkg == nil && fn.Origin() == nil {
			continue
		}
		if fn.Pkg == nil {
			// an instance of a generic function: it belongs to the package of its origin
			if fn.Origin().Pkg == nil {
				continue
			}
			fn.Pkg = fn.Origin().Pkg
		}
		key, _ := funcKey(fn)
		w.funcs[key] = fn
	}
	cs, err := LoadContracts(repo, extraSpecs)
	if err != nil {
		return nil, err
	}
	w.cs = cs
	// normalise package names to import paths
	nf := map[string]*FuncContract{}
	for _, k := range sortedKeys(cs.Funcs) {
		fc := cs.Funcs[k]
		if p := w.pkgByPath(fc.Pkg); p != nil {
			fc.Pkg = p.Pkg.Path()
		}
		nf[fc.Pkg+"."+fc.Name] = fc
	}
	cs.Funcs = nf
	// a function that implements a named contract inherits its clauses
	for _, k := range sortedKeys(cs.Funcs) {
		fc := cs.Funcs[k]
		for _, name := range fc.Implements {
			target := cs.Funcs[fc.Pkg+"."+name]
			if target == nil {
				return nil, fmt.Errorf("%s implements unknown contract %s", k, name)
			}
			for _, cl := range target.Clauses {
				cc := *cl
				if cc.Label != "" {
					cc.Label = name + "." + cc.Label
				} else {
					cc.Label = name
				}
				fc.Clauses = append(fc.Clauses, &cc)
			}
			for _, m := range target.Modifies {
				if !contains(fc.Modifies, m) {
					fc.Modifies = append(fc.Modifies, m)
				}
			}
		}
	}
	for _, g := range cs.Ghosts {
		k := w.ghostKey(g)
		w.ghostKeys[k] = true
	}
	return w, nil
}

func (w *World) ghostKey(g *GhostVar) string {
	key := "ghost|" + g.Name
	if _, ok := w.heapSorts[key]; !ok {
		t := w.parseType(g.Type, w.pkgByPath(g.Pkg))
		if t == nil {
			panic("ghost var " + g.Name + ": unknown type " + g.Type)
		}
		w.heapSorts[key] = w.sorts.sortOf(t)
		w.heapTypes[key] = t
		w.ghostKeys[key] = true
	}
	return key
}

func (w *World) pkgByPath(path string) *ssa.Package {
	if p, ok := w.spkgs[path]; ok {
		return p
	}
	if p, ok := w.byName[path]; ok {
		return p
	}
	return nil
}

// parseType resolves a (small) type expression in the scope of pkg.
func (w *World) parseType(s string, pkg *ssa.Package) types.Type {
	s = strings.TrimSpace(s)
	if w.cs != nil {
		if al, ok := w.cs.Types[s]; ok {
			parts := strings.SplitN(al, "\x00", 2)
			p := w.pkgByPath(parts[1])
			if p == nil {
				p = pkg
			}
			tv, err := types.Eval(w.fset, p.Pkg, token.NoPos, parts[0])
			if err != nil {
				// retry in the file scopes (imports are file-scoped)
				packages.Visit(w.pkgs, nil, func(pp *packages.Package) {
					if pp.Types != p.Pkg || err == nil {
						return
					}
					for _, f := range pp.Syntax {
						if tv2, err2 := types.Eval(w.fset, p.Pkg, f.Name.End(), parts[0]); err2 == nil {
							tv, err = tv2, nil
							return
						}
					}
				})
			}
			if err != nil {
				panic(specError{msg: "type alias " + s + ": " + err.Error()})
			}
			return tv.Type
		}
	}
	switch {
	case strings.HasPrefix(s, "*"):
		t := w.parseType(s[1:], pkg)
		if t == nil {
			return nil
		}
		return types.NewPointer(t)
	case strings.HasPrefix(s, "[ref]"):
		t := w.parseType(s[5:], pkg)
		if t == nil {
			return nil
		}
		return types.NewMap(types.Typ[types.UnsafePointer], t)
	case strings.HasPrefix(s, "[]"):
		t := w.parseType(s[2:], pkg)
		if t == nil {
			return nil
		}
		return types.NewSlice(t)
	}
	switch s {
	case "int":
		return tInt
	case "bool":
		return tBool
	case "string":
		return tString
	case "byte", "uint8":
		return types.Typ[types.Uint8]
	case "uint32":
		return types.Typ[types.Uint32]
	case "uint16":
		return types.Typ[types.Uint16]
	case "uint64":
		return types.Typ[types.Uint64]
	case "int64":
		return types.Typ[types.Int64]
	case "int32":
		return types.Typ[types.Int32]
	case "uint":
		return types.Typ[types.Uint]
	case "error":
		return types.Universe.Lookup("error").Type()
	case "any":
		return types.Universe.Lookup("any").Type()
	case "ref":
		return types.Typ[types.UnsafePointer]
	}
	if k := strings.Index(s, "."); k > 0 {
		p := w.pkgByPath(s[:k])
		if p == nil {
			return nil
		}
		if o := p.Pkg.Scope().Lookup(s[k+1:]); o != nil {
			if tn, ok := o.(*types.TypeName); ok {
				return tn.Type()
			}
		}
		return nil
	}
	return w.lookupType(s, pkg)
}

func (w *World) lookupType(name string, pkg *ssa.Package) types.Type {
	if pkg == nil {
		return nil
	}
	if o := pkg.Pkg.Scope().Lookup(name); o != nil {
		if tn, ok := o.(*types.TypeName); ok {
			return tn.Type()
		}
	}
	return nil
}

// pkgLevel resolves a package-level constant or variable.
func (w *World) pkgLevel(name string, pkg *ssa.Package, v *FnVC, env *Env) (Term, bool) {
	if pkg == nil {
		return Term{}, false
	}
	o := pkg.Pkg.Scope().Lookup(name)
	if o == nil {
		return Term{}, false
	}
	switch x := o.(type) {
	case *types.Const:
		return constTermOf(x, w.sorts)
	case *types.Var:
		if g, ok := pkg.Members[name].(*ssa.Global); ok {
			return Term{envGet(v, env, v.globalKey(g)), x.Type()}, true
		}
	case *types.Func:
		if f, ok := pkg.Members[name].(*ssa.Function); ok {
			return Term{w.funcRef(f), x.Type()}, true
		}
	}
	return Term{}, false
}

func (w *World) qualified(pkgName, name string, from *ssa.Package, v *FnVC, env *Env) (Term, bool) {
	p := w.pkgByPath(pkgName)
	if p == nil {
		return Term{}, false
	}
	// only if pkgName is really a package name (imported or known)
	return w.pkgLevel(name, p, v, env)
}

func (w *World) scopeLookup(fn *ssa.Function, name string, pos token.Pos) types.Object {
	if fn.Pkg == nil {
		return nil
	}
	var pkg *packages.Package
	packages.Visit(w.pkgs, nil, func(p *packages.Package) {
		if p.Types == fn.Pkg.Pkg {
			pkg = p
		}
	})
	if pkg == nil {
		return nil
	}
	// innermost scope containing pos
	var inner *types.Scope
	for _, f := range pkg.Syntax {
		if f.Pos() <= pos && pos <= f.End() {
			sc := pkg.TypesInfo.Scopes[f]
			if sc != nil {
				inner = sc.Innermost(pos)
			}
		}
	}
	if inner == nil {
		return nil
	}
	_, obj := inner.LookupParent(name, pos)
	return obj
}

func (w *World) declareOnce(name, decl string) {
	if !w.declared[name] {
		w.declared[name] = true
		w.decls.WriteString(decl + "\n")
	}
}

func (w *World) needSub(fn string) {
	w.declareOnce(fn, fmt.Sprintf("(declare-fun %s (Int) Int)\n(declare-fun %s.inv (Int) Int)\n(assert (forall ((x Int)) (! (and (< (%s x) 0) (= (%s.inv (%s x)) x)) :pattern ((%s x)))))", fn, fn, fn, fn, fn, fn))
}

func (w *World) typeTag(t types.Type) int {
	k := types.TypeString(t, nil)
	if id, ok := w.tags[k]; ok {
		return id
	}
	id := len(w.tags) + 1
	w.tags[k] = id
	w.tagTypes = append(w.tagTypes, t)
	return id
}

func (w *World) boxFn(t types.Type, sort string) string {
	tag := w.typeTag(t)
	fn := fmt.Sprintf("box.%d", tag)
	w.declareOnce(fn, fmt.Sprintf("(declare-fun %s (%s) Int)\n(declare-fun unbox.%d (Int) %s)\n(assert (forall ((x %s)) (! (and (> (%s x) 0) (= (dyntype (%s x)) %d) (= (unbox.%d (%s x)) x)) :pattern ((%s x)))))\n(assert (forall ((y Int)) (! (=> (and (not (= y 0)) (= (dyntype y) %d)) (= (%s (unbox.%d y)) y)) :pattern ((unbox.%d y)))))", fn, sort, tag, sort, sort, fn, fn, tag, tag, fn, fn, tag, fn, tag, tag))
	return fn
}

func (w *World) unboxFn(t types.Type, sort string) string {
	w.boxFn(t, sort)
	return fmt.Sprintf("unbox.%d", w.typeTag(t))
}

// implFn: predicate over dynamic type tags "implements interface it".  For
// concrete types known to the program the answer is fixed by the type checker.
func (w *World) implFn(it types.Type) string {
	k := "impl." + sanitize(types.TypeString(it, func(p *types.Package) string { return p.Name() }))
	if !w.declared[k] {
		w.declareOnce(k, fmt.Sprintf("(declare-fun %s (Int) Bool)", k))
		w.ifaces[k] = it
	}
	return k
}

// implFacts: for every concrete type tag and interface predicate, the static answer.
func (w *World) implFacts() string {
	var b strings.Builder
	for _, k := range sortedKeys(w.ifaces) {
		it := w.ifaces[k]
		iface, ok := it.Underlying().(*types.Interface)
		if !ok {
			continue
		}
		for i, t := range w.tagTypes {
			fmt.Fprintf(&b, "(assert (= (%s %d) %v))\n", k, i+1, types.Implements(t, iface))
		}
	}
	return b.String()
}

func (w *World) funcRef(fn *ssa.Function) string {
	id, ok := w.funcIDs[fn]
	if !ok {
		id = len(w.funcIDs) + 1
		w.funcIDs[fn] = id
	}
	// function values: negative, distinct, pre-existing
	return fmt.Sprintf("(- %d)", 1000000+id)
}

func (w *World) globalAddr(g *ssa.Global) string {
	id, ok := w.globalIDs[g]
	if !ok {
		id = len(w.globalIDs) + 1
		w.globalIDs[g] = id
	}
	return fmt.Sprintf("(- %d)", 2000000+id)
}

func (w *World) closureBind(fn *ssa.Function, i int, sort string) string {
	key, _ := funcKey(fn)
	name := fmt.Sprintf("closure.%s.%d", sanitize(key), i)
	w.declareOnce(name, fmt.Sprintf("(declare-fun %s (Int) %s)", name, sort))
	w.declareOnce("closure.code", "(declare-fun closure.code (Int) Int)")
	return name
}

func (w *World) isPureExtern(key string) bool { return w.pureExt[key] }

func (w *World) funcValueContract(t types.Type) string {
	if n, ok := t.(*types.Named); ok && n.Obj().Pkg() != nil {
		key := n.Obj().Pkg().Path() + "." + n.Obj().Name() + ".call"
		if _, ok := w.cs.Funcs[key]; ok {
			return key
		}
	}
	return ""
}

func (w *World) declareSpecFun(sf *SpecFun, v *FnVC, pkg *ssa.Package) string {
	name := "spec." + sf.Name
	if !w.declared[name] {
		var ps []string
		for _, p := range sf.Params {
			t := w.parseType(p.Type, pkg)
			if t == nil {
				panic(specError{msg: fmt.Sprintf("unknown type %s in spec function %s", p.Type, sf.Name)})
			}
			ps = append(ps, w.sorts.sortOf(t))
		}
		rt := w.parseType(sf.Result, pkg)
		w.declareOnce(name, fmt.Sprintf("(declare-fun %s (%s) %s)", name, strings.Join(ps, " "), w.sorts.sortOf(rt)))
	}
	return name
}

// pureCall: a Go function marked `pure` in its contract, applied in a spec.
func (w *World) pureCall(x *CallE, env *Env, v *FnVC, cl *Clause) (Term, bool) {
	var fc *FuncContract
	var key string
	cands := []string{}
	if env.pkg != nil {
		cands = append(cands, env.pkg.Pkg.Path()+"."+x.Fun)
	}
	if k := strings.Index(x.Fun, "."); k > 0 {
		if p := w.pkgByPath(x.Fun[:k]); p != nil {
			cands = append(cands, p.Pkg.Path()+"."+x.Fun[k+1:])
		}
	}
	for _, c := range cands {
		if f, ok := w.cs.Funcs[c]; ok && f.Pure {
			fc, key = f, c
		}
	}
	if fc == nil {
		return Term{}, false
	}
	fn := w.funcs[key]
	if fn == nil {
		return Term{}, false
	}
	name := w.pureFn(key, fn)
	var as []string
	for i := range fn.Params {
		if i < len(x.Args) {
			as = append(as, v.specTerm(x.Args[i], env, cl).S)
		}
	}
	rt := fn.Signature.Results().At(0).Type()
	return Term{fmt.Sprintf("(%s %s)", name, strings.Join(as, " ")), rt}, true
}

func (w *World) pureFn(key string, fn *ssa.Function) string {
	name := "fn." + sanitize(key)
	var ps []string
	for _, p := range fn.Params {
		ps = append(ps, w.sorts.sortOf(p.Type()))
	}
	rt := fn.Signature.Results().At(0).Type()
	w.declareOnce(name, fmt.Sprintf("(declare-fun %s (%s) %s)", name, strings.Join(ps, " "), w.sorts.sortOf(rt)))
	return name
}

// findFunction resolves a contract's function.
func (w *World) findFunction(fc *FuncContract) *ssa.Function {
	pkg := w.pkgByPath(fc.Pkg)
	if pkg == nil {
		return nil
	}
	return w.funcs[pkg.Pkg.Path()+"."+fc.Name]
}

func (w *World) functionsForProp(prop string) []*FuncContract {
	var out []*FuncContract
	for _, k := range sortedKeys(w.cs.Funcs) {
		fc := w.cs.Funcs[k]
		if fc.Extern {
			continue
		}
		if prop == "" || hasProp(fc, prop) {
			out = append(out, fc)
		}
	}
	sort.Slice(out, func(i, j int) bool { return out[i].Name < out[j].Name })
	return out
}

func hasProp(fc *FuncContract, prop string) bool {
	for _, p := range fc.Props {
		if p == prop {
			return true
		}
	}
	for _, p := range fc.NoAllocProps {
		if p == prop {
			return true
		}
	}
	for _, cl := range fc.Clauses {
		for _, p := range cl.Props {
			if p == prop {
				return true
			}
		}
	}
	return false
}

var _ = ast.Inspect
