package main

// Solver portfolio: z3 4.8 (z3), z3 5.x (z3-new), cvc5.

import (
	"bytes"
	"context"
	"fmt"
	"os"
	"os/exec"
	"path/filepath"
	"strconv"
	"strings"
	"sync"
	"time"
)

type SolveResult struct {
	Status string // unsat, sat, unknown, timeout, error
	Solver string
	Ms     int64
	Output string
	Model  map[string]string
	Tried  []string
	File   string
}

type solverSpec struct {
	name string
	args func(file string, sec int) []string
}

var solvers = []solverSpec{
	{"z3-new", func(f string, s int) []string { return []string{"z3-new", fmt.Sprintf("-T:%d", s), f} }},
	{"z3", func(f string, s int) []string { return []string{"z3", fmt.Sprintf("-T:%d", s), f} }},
	{"cvc5", func(f string, s int) []string {
		return []string{"cvc5", "--lang=smt2", fmt.Sprintf("--tlimit=%d", s*1000), f}
	}},
}

var solverSem = make(chan struct{}, solverJobs())

// solverJobs is the number of solver processes run at once (16 unless FOXVC_JOBS says otherwise;
// the corpus runner lowers it so that a background run does not starve interactive checks).
func solverJobs() int {
	if v, err := strconv.Atoi(os.Getenv("FOXVC_JOBS")); err == nil && v > 0 {
		return v
	}
	return 16
}

func runSolver(ctx context.Context, sp solverSpec, file string, sec int) (string, string, int64) {
	solverSem <- struct{}{}
	defer func() { <-solverSem }()
	if ctx.Err() != nil {
		return "cancelled", "", 0
	}
	args := sp.args(file, sec)
	c, cancel := context.WithTimeout(ctx, time.Duration(sec+2)*time.Second)
	defer cancel()
	cmd := exec.CommandContext(c, args[0], args[1:]...)
	var out bytes.Buffer
	cmd.Stdout = &out
	cmd.Stderr = &out
	start := time.Now()
	_ = cmd.Run()
	ms := time.Since(start).Milliseconds()
	text := out.String()
	first := ""
	for _, ln := range strings.Split(text, "\n") {
		ln = strings.TrimSpace(ln)
		if ln == "sat" || ln == "unsat" || ln == "unknown" || ln == "timeout" {
			first = ln
			break
		}
	}
	// any solver error other than the benign "no model after unsat" invalidates the answer
	for _, ln := range strings.Split(text, "\n") {
		if strings.Contains(ln, "(error") && !strings.Contains(ln, "model is not available") {
			return "error", text, ms
		}
	}
	switch first {
	case "unsat", "sat", "unknown", "timeout":
	default:
		if ctx.Err() != nil {
			first = "cancelled"
		} else if c.Err() != nil {
			first = "timeout"
		} else if strings.Contains(text, "timeout") || strings.Contains(text, "interrupted") {
			first = "timeout"
		} else {
			first = "error"
		}
	}
	return first, text, ms
}

// solve decides one query. want = "unsat" for proof obligations, "sat" for covers.
// Stage 1 races z3 5.x under three random seeds (an unlucky seed is the usual reason
// for a slow proof); stage 2 races further seeds, z3 4.8 and cvc5 with the long timeout.
func solve(file string, quickSec, fullSec int, want string) *SolveResult {
	res := &SolveResult{File: file}
	if want == "sat" {
		// cover query: one cheap attempt; only a definite "unsat" counts as vacuous
		st, out, ms := runSolver(context.Background(), solvers[0], file, 1)
		res.Status, res.Solver, res.Ms, res.Output = st, solvers[0].name, ms, out
		return res
	}
	seeded := func(seed int) solverSpec {
		return solverSpec{fmt.Sprintf("z3-new/seed%d", seed), func(f string, sec int) []string {
			return []string{"z3-new", fmt.Sprintf("-T:%d", sec), fmt.Sprintf("smt.random_seed=%d", seed), fmt.Sprintf("sat.random_seed=%d", seed), f}
		}}
	}
	race := func(sps []solverSpec, sec int) bool {
		ctx, cancel := context.WithCancel(context.Background())
		defer cancel()
		type r struct {
			st, out, name string
			ms            int64
		}
		ch := make(chan r, len(sps))
		var wg sync.WaitGroup
		for _, sp := range sps {
			wg.Add(1)
			go func(sp solverSpec) {
				defer wg.Done()
				st, out, ms := runSolver(ctx, sp, file, sec)
				ch <- r{st, out, sp.name, ms}
			}(sp)
		}
		go func() { wg.Wait(); close(ch) }()
		decided := false
		for x := range ch {
			if x.st == "cancelled" {
				continue
			}
			res.Tried = append(res.Tried, fmt.Sprintf("%s:%s:%dms", x.name, x.st, x.ms))
			if decided {
				continue
			}
			if x.st == "unsat" || x.st == "sat" {
				res.Status, res.Solver, res.Ms, res.Output = x.st, x.name, x.ms, x.out
				decided = true
				cancel()
				continue
			}
			if res.Status == "" || (x.st == "unknown" && res.Status != "unknown") {
				res.Status, res.Output, res.Solver, res.Ms = x.st, x.out, x.name, x.ms
			}
		}
		return decided
	}
	if race([]solverSpec{solvers[0], seeded(7919), seeded(104729)}, quickSec) {
		return res
	}
	race([]solverSpec{seeded(15485863), seeded(32452843), solvers[1], solvers[2]}, fullSec)
	return res
}

// ---- query text

func (w *World) queryText(v *FnVC, o *Obligation, modelBound int) string {
	var b strings.Builder
	b.WriteString(prelude)
	b.WriteString(w.sorts.decls.String())
	b.WriteString(bitsDecl + "\n")
	b.WriteString(w.decls.String())
	b.WriteString(w.implFacts())
	body := v.body.String()
	b.WriteString(body)
	fmt.Fprintf(&b, "; obligation %s\n", o.Name)
	seen := map[string]bool{}
	for _, h := range o.Hoisted {
		if !seen[h] {
			seen[h] = true
			fmt.Fprintf(&b, "(assert %s)\n", h)
		}
	}
	fmt.Fprintf(&b, "(assert %s)\n", o.At)
	if o.Cover {
		fmt.Fprintf(&b, "(assert %s)\n", o.Goal)
	} else {
		fmt.Fprintf(&b, "(assert (not %s))\n", o.Goal)
	}
	var gv []string
	for _, mv := range o.Vars {
		switch mv.Type {
		case "string":
			if modelBound > 0 {
				fmt.Fprintf(&b, "(assert (<= (s_len %s) %d))\n", mv.Term, modelBound)
			}
			gv = append(gv, fmt.Sprintf("(s_len %s)", mv.Term))
			for i := 0; i < modelBound; i++ {
				gv = append(gv, fmt.Sprintf("(str_at %s %d)", mv.Term, i))
			}
		default:
			gv = append(gv, mv.Term)
		}
	}
	b.WriteString("(check-sat)\n")
	if len(gv) > 0 && !o.Cover {
		fmt.Fprintf(&b, "(get-value (%s))\n", strings.Join(gv, " "))
	}
	return b.String()
}

func writeQuery(dir, name, text string) string {
	os.MkdirAll(dir, 0o755)
	f := filepath.Join(dir, sanitize(name)+".smt2")
	os.WriteFile(f, []byte(text), 0o644)
	return f
}

// ---- model parsing: output of (get-value (...)) is ((term value) (term value) ...)

type sexp struct {
	atom string
	list []*sexp
}

func parseSexps(s string) []*sexp {
	var out []*sexp
	pos := 0
	for {
		e, np := parseSexp(s, pos)
		if e == nil {
			return out
		}
		out = append(out, e)
		pos = np
	}
}

func parseSexp(s string, pos int) (*sexp, int) {
	for pos < len(s) && (s[pos] == ' ' || s[pos] == '\n' || s[pos] == '\t' || s[pos] == '\r') {
		pos++
	}
	if pos >= len(s) {
		return nil, pos
	}
	if s[pos] == '(' {
		pos++
		e := &sexp{}
		for {
			for pos < len(s) && (s[pos] == ' ' || s[pos] == '\n' || s[pos] == '\t' || s[pos] == '\r') {
				pos++
			}
			if pos >= len(s) {
				return e, pos
			}
			if s[pos] == ')' {
				return e, pos + 1
			}
			c, np := parseSexp(s, pos)
			if c == nil {
				return e, np
			}
			e.list = append(e.list, c)
			pos = np
		}
	}
	if s[pos] == ')' {
		return nil, pos + 1
	}
	start := pos
	if s[pos] == '|' {
		pos++
		for pos < len(s) && s[pos] != '|' {
			pos++
		}
		pos++
		return &sexp{atom: s[start:pos]}, pos
	}
	for pos < len(s) && !strings.ContainsRune(" \n\t\r()", rune(s[pos])) {
		pos++
	}
	return &sexp{atom: s[start:pos]}, pos
}

func (e *sexp) String() string {
	if e.list == nil && e.atom != "" {
		return e.atom
	}
	var parts []string
	for _, c := range e.list {
		parts = append(parts, c.String())
	}
	return "(" + strings.Join(parts, " ") + ")"
}

// parseModel extracts term -> value from solver output after "sat".
func parseModel(out string) map[string]string {
	m := map[string]string{}
	k := strings.Index(out, "\n")
	if k < 0 {
		return m
	}
	for _, e := range parseSexps(out[k+1:]) {
		for _, pair := range e.list {
			if len(pair.list) == 2 {
				m[pair.list[0].String()] = pair.list[1].String()
			}
		}
	}
	return m
}

func smtValInt(s string) (int64, bool) {
	s = strings.TrimSpace(s)
	neg := false
	if strings.HasPrefix(s, "(-") {
		neg = true
		s = strings.TrimSpace(strings.TrimSuffix(strings.TrimPrefix(s, "(-"), ")"))
	}
	var v int64
	_, err := fmt.Sscanf(s, "%d", &v)
	if err != nil {
		return 0, false
	}
	if neg {
		v = -v
	}
	return v, true
}

// solveModel: look for a model (sat) of a query, z3-new then z3.
func solveModel(file string, sec int) *SolveResult {
	res := &SolveResult{File: file}
	for _, sp := range solvers[:2] {
		st, out, ms := runSolver(context.Background(), sp, file, sec)
		res.Status, res.Solver, res.Ms, res.Output = st, sp.name, ms, out
		if st == "sat" {
			return res
		}
	}
	return res
}

// weaken drops quantified hypotheses (define-funs of sort Bool whose body is a quantifier).
func weaken(text string) string {
	lines := strings.Split(text, "\n")
	for i, ln := range lines {
		if strings.HasPrefix(ln, "(assert (forall ") {
			lines[i] = ""
			continue
		}
		if strings.HasPrefix(ln, "(define-fun |as~") && (strings.Contains(ln, "(forall ") || strings.Contains(ln, "(exists ")) {
			k := strings.Index(ln, " () Bool ")
			if k > 0 {
				lines[i] = ln[:k] + " () Bool true)"
			}
		}
	}
	return strings.Join(lines, "\n")
}
