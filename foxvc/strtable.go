package main

// Audit of a package-level []string table against a list of required entries:
//   audit string-table props P : TABLE covers "A", "B", ...
// The table's initialiser is read from the type-checked source on every run (constants are resolved by
// go/types); every required name must equal one of the elements ignoring ASCII case.

import (
	"fmt"
	"go/ast"
	"go/constant"
	"go/token"
	"strings"

	"golang.org/x/tools/go/packages"
)

func (w *World) stringTableObligations(a Audit) ([]*Obligation, []string) {
	var errs []string
	spec := strings.Join(a.Tables, ", ")
	k := strings.Index(spec, " covers ")
	if k < 0 {
		return nil, []string{"audit string-table: expected 'TABLE covers \"a\", \"b\"'"}
	}
	table := strings.TrimSpace(spec[:k])
	var want []string
	for _, s := range strings.Split(spec[k+8:], ",") {
		want = append(want, strings.Trim(strings.TrimSpace(s), "\""))
	}
	var have []string
	var pos token.Pos
	found := false
	packages.Visit(w.pkgs, nil, func(p *packages.Package) {
		if p.Types == nil || (p.Types.Name() != a.Pkg && p.Types.Path() != a.Pkg) {
			return
		}
		for _, f := range p.Syntax {
			for _, d := range f.Decls {
				gd, ok := d.(*ast.GenDecl)
				if !ok || gd.Tok != token.VAR {
					continue
				}
				for _, sp := range gd.Specs {
					vs := sp.(*ast.ValueSpec)
					for i, n := range vs.Names {
						if n.Name != table || i >= len(vs.Values) {
							continue
						}
						found = true
						pos = n.Pos()
						cl, ok := vs.Values[i].(*ast.CompositeLit)
						if !ok {
							errs = append(errs, table+": initialiser is not a composite literal")
							continue
						}
						for _, e := range cl.Elts {
							tv, ok := p.TypesInfo.Types[e]
							if !ok || tv.Value == nil || tv.Value.Kind() != constant.String {
								errs = append(errs, table+": element is not a constant string")
								continue
							}
							have = append(have, constant.StringVal(tv.Value))
						}
					}
				}
			}
		}
	})
	if !found {
		errs = append(errs, "audit string-table: "+table+" not found in package "+a.Pkg)
	}
	var out []*Obligation
	for _, name := range want {
		ok := false
		for _, h := range have {
			if strings.EqualFold(h, name) {
				ok = true
			}
		}
		ob := &Obligation{Name: fmt.Sprintf("%s.tables/covers[%s:%s]", a.Pkg, table, name), Kind: "audit", Props: a.Props, Func: a.Pkg + ".tables", Claimed: true,
			Text: fmt.Sprintf("%s contains %q (ignoring case); table read from the source: %q", table, name, have), Pos: w.prog.Fset.Position(pos)}
		ob.Result = &SolveResult{Status: "unsat", Solver: "table-audit"}
		if !ok {
			ob.Result.Status = "sat"
			ob.Result.Output = fmt.Sprintf("%q is not in %s = %q", name, table, have)
		}
		out = append(out, ob)
	}
	return out, errs
}
