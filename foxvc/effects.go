package main

// Effect clauses ("effects FUNC : nolock, noalloc [except A, B] props ..."): decided by a closure over the
// static call graph of the function inside the module, not by an SMT query.
//
//   nolock  : no call of a blocking primitive (sync.Mutex/RWMutex Lock/RLock, Cond.Wait, WaitGroup.Wait,
//             Once.Do, time.Sleep), no channel operation, no select, no go statement is reachable.
//   noalloc : no allocation site is reachable: the compiler's own escape analysis (go build -gcflags=-m)
//             reports nothing "escapes to heap"/"moved to heap" inside a reachable function, and the SSA
//             contains no string concatenation, string<->slice conversion, map/chan creation.
//             append is assumed to stay within capacity (steady state) and is counted, not flagged.
//
// Calls through function values and interfaces are not followed (counted and reported as assumptions),
// callees outside the module are not followed (only the blocking primitives above are recognised),
// callees listed after `except` are not followed.

import (
	"bufio"
	"fmt"
	"go/token"
	"go/types"
	"os"
	"os/exec"
	"path/filepath"
	"regexp"
	"sort"
	"strconv"
	"strings"

	"golang.org/x/tools/go/ssa"
)

var blockingCallees = map[string]bool{
	"(*sync.Mutex).Lock": true, "(*sync.RWMutex).Lock": true, "(*sync.RWMutex).RLock": true,
	"(*sync.Cond).Wait": true, "(*sync.WaitGroup).Wait": true, "(*sync.Once).Do": true, "time.Sleep": true,
	"(*sync.Mutex).TryLock": true, "(*sync.RWMutex).TryLock": true, "(*sync.RWMutex).TryRLock": true,
}

type effectResult struct {
	Decl       EffectDecl
	Functions  []string
	Violations []string
	Dynamic    int // calls through interfaces / function values (not followed)
	External   int // calls leaving the module (not followed)
	Appends    int
	Excused    int // compiler diagnostics on lines that call an excepted function (its inlined body)
	Excepted   []string
}

type escapeDiag struct {
	file string
	line int
	msg  string
}

var escapeCache map[string][]escapeDiag

// escapeDiags runs the compiler's escape analysis over the module once per process.
func (w *World) escapeDiags(repo string) ([]escapeDiag, error) {
	if d, ok := escapeCache[repo]; ok {
		return d, nil
	}
	cmd := exec.Command("go", "build", "-gcflags=-m", "./...")
	cmd.Dir = repo
	cmd.Env = append(os.Environ(), "GOFLAGS=-mod=mod", "GOPROXY=off")
	out, err := cmd.CombinedOutput()
	re := regexp.MustCompile(`^(\S+\.go):(\d+):(\d+): (.*)$`)
	var ds []escapeDiag
	sc := bufio.NewScanner(strings.NewReader(string(out)))
	sc.Buffer(make([]byte, 1<<20), 1<<24)
	for sc.Scan() {
		m := re.FindStringSubmatch(sc.Text())
		if m == nil {
			continue
		}
		ln, _ := strconv.Atoi(m[2])
		f := m[1]
		if !filepath.IsAbs(f) {
			f = filepath.Join(repo, f)
		}
		ds = append(ds, escapeDiag{filepath.Clean(f), ln, m[4]})
	}
	if len(ds) == 0 && err != nil {
		return nil, fmt.Errorf("go build -gcflags=-m failed: %v: %s", err, truncate(string(out), 400))
	}
	if escapeCache == nil {
		escapeCache = map[string][]escapeDiag{}
	}
	escapeCache[repo] = ds
	return ds, nil
}

func calleeName(fn *ssa.Function) string {
	if fn.Signature.Recv() != nil {
		return "(" + types.TypeString(fn.Signature.Recv().Type(), func(p *types.Package) string { return p.Name() }) + ")." + fn.Name()
	}
	if fn.Pkg != nil {
		return fn.Pkg.Pkg.Name() + "." + fn.Name()
	}
	return fn.Name()
}

func (w *World) checkEffect(d EffectDecl, repo string) *effectResult {
	res := &effectResult{Decl: d}
	root := w.findFunction(&FuncContract{Pkg: d.Pkg, Name: d.Func})
	if root == nil {
		res.Violations = append(res.Violations, fmt.Sprintf("%s: function not found in the current tree", d.Func))
		return res
	}
	except := map[string]bool{}
	for _, e := range d.Except {
		except[e] = true
	}
	fset := w.prog.Fset
	inModule := func(fn *ssa.Function) bool {
		p := fn.Pkg
		if p == nil && fn.Origin() != nil {
			p = fn.Origin().Pkg
		}
		if p == nil && fn.Parent() != nil {
			p = fn.Parent().Pkg
		}
		return p != nil && strings.HasPrefix(p.Pkg.Path(), w.modulePath)
	}
	seen := map[*ssa.Function]bool{}
	var order []*ssa.Function
	var visit func(fn *ssa.Function)
	visit = func(fn *ssa.Function) {
		if seen[fn] || fn.Blocks == nil {
			return
		}
		seen[fn] = true
		order = append(order, fn)
		pos := func(p token.Pos) string {
			pp := fset.Position(p)
			return fmt.Sprintf("%s:%d", pp.Filename, pp.Line)
		}
		for _, b := range fn.Blocks {
			for _, ins := range b.Instrs {
				var cc *ssa.CallCommon
				switch x := ins.(type) {
				case *ssa.Call:
					cc = &x.Call
				case *ssa.Defer:
					cc = &x.Call
				case *ssa.Go:
					cc = &x.Call
					if d.Effect == "nolock" {
						res.Violations = append(res.Violations, pos(x.Pos())+": go statement in "+calleeName(fn))
					}
				case *ssa.Send:
					if d.Effect == "nolock" {
						res.Violations = append(res.Violations, pos(x.Pos())+": channel send in "+calleeName(fn))
					}
				case *ssa.Select:
					if d.Effect == "nolock" {
						res.Violations = append(res.Violations, pos(x.Pos())+": select in "+calleeName(fn))
					}
				case *ssa.UnOp:
					if x.Op == token.ARROW && d.Effect == "nolock" {
						res.Violations = append(res.Violations, pos(x.Pos())+": channel receive in "+calleeName(fn))
					}
				case *ssa.BinOp:
					if d.Effect == "noalloc" && x.Op == token.ADD {
						if bt, ok := x.X.Type().Underlying().(*types.Basic); ok && bt.Info()&types.IsString != 0 {
							res.Violations = append(res.Violations, pos(x.Pos())+": string concatenation in "+calleeName(fn))
						}
					}
				case *ssa.Convert:
					if d.Effect == "noalloc" {
						_, fromS := x.X.Type().Underlying().(*types.Slice)
						_, toS := x.Type().Underlying().(*types.Slice)
						fb, fromStr := x.X.Type().Underlying().(*types.Basic)
						tb, toStr := x.Type().Underlying().(*types.Basic)
						if (fromS && toStr && tb.Info()&types.IsString != 0) || (toS && fromStr && fb.Info()&types.IsString != 0) {
							res.Violations = append(res.Violations, pos(x.Pos())+": string/slice conversion in "+calleeName(fn))
						}
					}
				case *ssa.MakeMap:
					if d.Effect == "noalloc" {
						res.Violations = append(res.Violations, pos(x.Pos())+": map creation in "+calleeName(fn))
					}
				case *ssa.MakeChan:
					if d.Effect == "noalloc" {
						res.Violations = append(res.Violations, pos(x.Pos())+": channel creation in "+calleeName(fn))
					}
				}
				if cc == nil {
					continue
				}
				if b, ok := cc.Value.(*ssa.Builtin); ok {
					if b.Name() == "append" {
						res.Appends++
					}
					continue
				}
				callee := cc.StaticCallee()
				if callee == nil {
					res.Dynamic++
					continue
				}
				name := calleeName(callee)
				if d.Effect == "nolock" && blockingCallees[name] {
					res.Violations = append(res.Violations, pos(ins.Pos())+": "+name+" called in "+calleeName(fn))
					continue
				}
				bare := callee.Name()
				if k := strings.Index(bare, "["); k >= 0 {
					bare = bare[:k]
				}
				if except[name] || except[callee.Name()] || except[bare] {
					res.Excepted = append(res.Excepted, name)
					continue
				}
				if !inModule(callee) {
					res.External++
					continue
				}
				visit(callee)
			}
		}
		for _, an := range fn.AnonFuncs {
			visit(an)
		}
	}
	visit(root)
	for _, fn := range order {
		res.Functions = append(res.Functions, calleeName(fn))
	}
	if d.Effect == "noalloc" {
		ds, err := w.escapeDiags(repo)
		if err != nil {
			res.Violations = append(res.Violations, err.Error())
		}
		for _, fn := range order {
			syn := fn.Syntax()
			if syn == nil {
				continue
			}
			p0, p1 := fset.Position(syn.Pos()), fset.Position(syn.End())
			for _, dg := range ds {
				if dg.file != filepath.Clean(p0.Filename) || dg.line < p0.Line || dg.line > p1.Line {
					continue
				}
				if excusedLine(dg.file, dg.line, d.Except) {
					res.Excused++
					continue
				}
				if strings.Contains(dg.msg, "escapes to heap") || strings.Contains(dg.msg, "moved to heap") {
					res.Violations = append(res.Violations, fmt.Sprintf("%s:%d: compiler: %s (in %s)", dg.file, dg.line, dg.msg, calleeName(fn)))
				}
			}
		}
	}
	sort.Strings(res.Violations)
	res.Violations = dedup(res.Violations)
	sort.Strings(res.Excepted)
	res.Excepted = dedup(res.Excepted)
	return res
}

func dedup(xs []string) []string {
	var out []string
	for i, x := range xs {
		if i == 0 || x != xs[i-1] {
			out = append(out, x)
		}
	}
	return out
}

var srcLines = map[string][]string{}

// excusedLine: the source line is a call of an excepted function (the diagnostic belongs to its inlined body).
func excusedLine(file string, line int, except []string) bool {
	ls, ok := srcLines[file]
	if !ok {
		data, _ := os.ReadFile(file)
		ls = strings.Split(string(data), "\n")
		srcLines[file] = ls
	}
	if line < 1 || line > len(ls) {
		return false
	}
	for _, e := range except {
		name := e
		if k := strings.LastIndex(name, "."); k >= 0 {
			name = name[k+1:]
		}
		if k := strings.Index(name, "["); k >= 0 {
			name = name[:k]
		}
		if strings.Contains(ls[line-1], name+"(") {
			return true
		}
	}
	return false
}
