package main

// Runtime assertion checking: contract expressions compiled to Go, used to
// replay solver counterexamples against the real code (go test -overlay).

import (
	"encoding/json"
	"fmt"
	"go/types"
	"os"
	"os/exec"
	"path/filepath"
	"strconv"
	"strings"
	"time"

	"golang.org/x/tools/go/ssa"
)

type racGen struct {
	w     *World
	pkg   *ssa.Package
	kinds map[string]string // variable -> int|bool|string|bytes|error|other
	funcs map[string]bool   // spec functions needed
	out   strings.Builder
	fail  string
}

func kindOfType(t types.Type) string {
	switch u := t.Underlying().(type) {
	case *types.Basic:
		switch {
		case u.Info()&types.IsBoolean != 0:
			return "bool"
		case u.Info()&types.IsString != 0:
			return "string"
		case u.Info()&types.IsInteger != 0:
			return "int"
		}
	case *types.Slice:
		if b, ok := u.Elem().Underlying().(*types.Basic); ok && b.Kind() == types.Uint8 {
			return "bytes"
		}
	case *types.Interface:
		if t.String() == "error" {
			return "error"
		}
	}
	return "other"
}

func kindOfName(s string) string {
	switch s {
	case "int", "byte", "uint8", "uint32", "uint16", "int64", "uint64", "uint":
		return "int"
	case "bool":
		return "bool"
	case "string":
		return "string"
	case "[]byte":
		return "bytes"
	case "error":
		return "error"
	}
	return "other"
}

func goTypeOfKind(k string) string {
	switch k {
	case "int":
		return "int"
	case "bool":
		return "bool"
	case "string":
		return "string"
	case "bytes":
		return "[]byte"
	case "error":
		return "error"
	}
	return "interface{}"
}

// expr compiles e to a Go expression and returns (code, kind).
func (g *racGen) expr(e Expr) (string, string) {
	switch x := e.(type) {
	case *IntLit:
		return strconv.FormatInt(x.V, 10), "int"
	case *BoolLit:
		return strconv.FormatBool(x.V), "bool"
	case *StrLit:
		return strconv.Quote(x.S), "string"
	case *Ident:
		if x.Name == "nil" {
			return "nil", "nil"
		}
		if k, ok := g.kinds[x.Name]; ok {
			if k == "int" {
				return "int(" + goIdent(x.Name) + ")", "int"
			}
			return goIdent(x.Name), k
		}
		if g.pkg != nil {
			if o := g.pkg.Pkg.Scope().Lookup(x.Name); o != nil {
				if c, ok := o.(*types.Const); ok {
					k := kindOfType(c.Type())
					if k == "int" {
						return "int(" + x.Name + ")", "int"
					}
					return x.Name, k
				}
			}
		}
		g.fail = "identifier " + x.Name + " not available at run time"
		return "0", "int"
	case *Unary:
		a, k := g.expr(x.X)
		switch x.Op {
		case "!":
			return "!(" + a + ")", "bool"
		case "-":
			return "-(" + a + ")", k
		}
	case *Binary:
		switch x.Op {
		case "==>":
			a, _ := g.expr(x.X)
			b, _ := g.expr(x.Y)
			return "(!(" + a + ") || (" + b + "))", "bool"
		case "<==>":
			a, _ := g.expr(x.X)
			b, _ := g.expr(x.Y)
			return "((" + a + ") == (" + b + "))", "bool"
		case "&&", "||":
			a, _ := g.expr(x.X)
			b, _ := g.expr(x.Y)
			return "((" + a + ") " + x.Op + " (" + b + "))", "bool"
		}
		a, ka := g.expr(x.X)
		b, kb := g.expr(x.Y)
		switch x.Op {
		case "==", "!=", "<", "<=", ">", ">=":
			if ka == "bytes" || kb == "bytes" {
				g.fail = "comparison of byte slices"
			}
			return "((" + a + ") " + x.Op + " (" + b + "))", "bool"
		case "+", "-", "*", "/", "%", "&", "|":
			k := ka
			if k == "nil" {
				k = kb
			}
			return "((" + a + ") " + x.Op + " (" + b + "))", k
		}
	case *CondE:
		c, _ := g.expr(x.C)
		a, k := g.expr(x.A)
		b, _ := g.expr(x.B)
		return fmt.Sprintf("func() %s { if %s { return %s }; return %s }()", goTypeOfKind(k), c, a, b), k
	case *IndexE:
		a, _ := g.expr(x.X)
		i, _ := g.expr(x.I)
		return "int(" + a + "[" + i + "])", "int"
	case *SliceE:
		a, k := g.expr(x.X)
		lo, hi := "", ""
		if x.Lo != nil {
			lo, _ = g.expr(x.Lo)
		}
		if x.Hi != nil {
			hi, _ = g.expr(x.Hi)
		}
		return a + "[" + lo + ":" + hi + "]", k
	case *CallE:
		switch x.Fun {
		case "len", "cap":
			a, _ := g.expr(x.Args[0])
			return x.Fun + "(" + a + ")", "int"
		case "old":
			return g.expr(x.Args[0])
		case "min", "max":
			a, _ := g.expr(x.Args[0])
			b, _ := g.expr(x.Args[1])
			return x.Fun + "(" + a + ", " + b + ")", "int"
		}
		if sf, ok := g.w.cs.Specs[x.Fun]; ok && sf.Body != nil {
			g.funcs[x.Fun] = true
			var as []string
			for _, a := range x.Args {
				c, _ := g.expr(a)
				as = append(as, c)
			}
			return "spec_" + x.Fun + "(" + strings.Join(as, ", ") + ")", kindOfName(sf.Result)
		}
		g.fail = "function " + x.Fun + " not executable"
		return "0", "int"
	case *Quant:
		save := map[string]string{}
		for _, qv := range x.Vars {
			save[qv.Name] = g.kinds[qv.Name]
			g.kinds[qv.Name] = "rawint"
		}
		body, _ := g.expr(x.Body)
		var b strings.Builder
		b.WriteString("func() bool { ")
		for _, qv := range x.Vars {
			fmt.Fprintf(&b, "for %s := -2; %s <= racBound; %s++ { ", goIdent(qv.Name), goIdent(qv.Name), goIdent(qv.Name))
		}
		if x.Forall {
			fmt.Fprintf(&b, "if !(%s) { return false }; ", body)
		} else {
			fmt.Fprintf(&b, "if %s { return true }; ", body)
		}
		for range x.Vars {
			b.WriteString("}; ")
		}
		fmt.Fprintf(&b, "return %v }()", x.Forall)
		for _, qv := range x.Vars {
			if save[qv.Name] == "" {
				delete(g.kinds, qv.Name)
			} else {
				g.kinds[qv.Name] = save[qv.Name]
			}
		}
		return b.String(), "bool"
	}
	g.fail = "expression not executable: " + e.String()
	return "false", "bool"
}

func goIdent(s string) string {
	switch s {
	case "len", "cap", "type", "func", "range", "map":
		return s + "_"
	}
	return s
}

func (g *racGen) specFuncs() string {
	var b strings.Builder
	done := map[string]bool{}
	for {
		progress := false
		for _, name := range sortedKeys(g.funcs) {
			if done[name] {
				continue
			}
			done[name] = true
			progress = true
			sf := g.w.cs.Specs[name]
			saved := g.kinds
			g.kinds = map[string]string{}
			var ps []string
			for _, p := range sf.Params {
				k := kindOfName(p.Type)
				g.kinds[p.Name] = k
				ps = append(ps, goIdent(p.Name)+" "+goTypeOfKind(k))
			}
			body, _ := g.expr(sf.Body)
			g.kinds = saved
			fmt.Fprintf(&b, "func spec_%s(%s) %s { return %s }\n", name, strings.Join(ps, ", "), goTypeOfKind(kindOfName(sf.Result)), body)
		}
		if !progress {
			break
		}
	}
	return b.String()
}

type ReplayResult struct {
	Confirmed bool
	Output    string
	Cmd       string
	TestFile  string
	Input     map[string]interface{}
	Skipped   string
}

// replay runs the real function on the model's input with the contract evaluated at run time.
func (w *World) replay(v *FnVC, ob *Obligation, input map[string]interface{}, outDir string) *ReplayResult {
	rr := &ReplayResult{Input: input}
	fn := v.fn
	g := &racGen{w: w, pkg: fn.Pkg, kinds: map[string]string{}, funcs: map[string]bool{}}
	sig := fn.Signature
	if sig.Recv() != nil {
		rr.Skipped = "method receiver: no replay constructor"
		return rr
	}
	imports := map[string]bool{}
	qual := func(p *types.Package) string {
		if p == fn.Pkg.Pkg {
			return ""
		}
		imports[p.Path()] = true
		return p.Name()
	}
	var decl strings.Builder
	var args []string
	maxLen := 4
	for _, p := range fn.Params {
		k := kindOfType(p.Type())
		val, ok := input[p.Name()]
		if !ok {
			rr.Skipped = "no model value for parameter " + p.Name()
			return rr
		}
		g.kinds[p.Name()] = k
		tn := types.TypeString(p.Type(), qual)
		switch k {
		case "string":
			s := fmt.Sprint(val)
			if len(s) > maxLen {
				maxLen = len(s)
			}
			fmt.Fprintf(&decl, "\tvar %s %s = %s\n", goIdent(p.Name()), tn, strconv.Quote(s))
		case "int":
			fmt.Fprintf(&decl, "\tvar %s %s = %v\n", goIdent(p.Name()), tn, val)
		case "bool":
			fmt.Fprintf(&decl, "\tvar %s %s = %v\n", goIdent(p.Name()), tn, val)
		default:
			rr.Skipped = "parameter " + p.Name() + " of type " + p.Type().String() + " cannot be built from a model"
			return rr
		}
		args = append(args, goIdent(p.Name()))
	}
	// results
	var resNames []string
	for i := 0; i < sig.Results().Len(); i++ {
		r := sig.Results().At(i)
		n := r.Name()
		if n == "" || n == "_" {
			n = "result" + strconv.Itoa(i)
			if i == 0 {
				n = "result"
			}
		}
		g.kinds[n] = kindOfType(r.Type())
		if i == 0 {
			g.kinds["result"] = kindOfType(r.Type())
			g.kinds["result0"] = kindOfType(r.Type())
		}
		g.kinds["result"+strconv.Itoa(i)] = kindOfType(r.Type())
		resNames = append(resNames, n)
	}
	var body strings.Builder
	body.WriteString(decl.String())
	fmt.Fprintf(&body, "\tracBound = %d\n", maxLen*2+4)
	// requires of default behaviour must hold, else the input is outside the contract
	for _, cl := range v.fc.Clauses {
		if cl.Kind == "requires" && cl.Behav == "" {
			c, _ := g.expr(cl.E)
			fmt.Fprintf(&body, "\tif !(%s) { t.Skip(\"input outside the precondition\") }\n", c)
		}
	}
	call := fn.Name() + "(" + strings.Join(args, ", ") + ")"
	if len(resNames) > 0 {
		fmt.Fprintf(&body, "\tvar %s = func() (%s) {\n\t\tdefer func() { if r := recover(); r != nil { t.Fatalf(\"REPLAY-VIOLATION panic: %%v\", r) } }()\n\t\treturn %s\n\t}()\n", strings.Join(resNames, ", "), resultTypes(sig, qual), call)
		for i, n := range resNames {
			fmt.Fprintf(&body, "\t_ = %s\n", n)
			if i == 0 && n != "result" {
				fmt.Fprintf(&body, "\tresult := %s; _ = result\n", n)
			}
			if n != "result"+strconv.Itoa(i) {
				fmt.Fprintf(&body, "\tresult%d := %s; _ = result%d\n", i, n, i)
			}
		}
	} else {
		fmt.Fprintf(&body, "\tfunc() {\n\t\tdefer func() { if r := recover(); r != nil { t.Fatalf(\"REPLAY-VIOLATION panic: %%v\", r) } }()\n\t\t%s\n\t}()\n", call)
	}
	nchecks := 0
	for _, cl := range v.fc.Clauses {
		if cl.Kind != "ensures" {
			continue
		}
		g.fail = ""
		c, _ := g.expr(cl.E)
		if g.fail != "" {
			continue
		}
		guard := "true"
		if cl.Behav != "" {
			var reqs []string
			for _, rc := range v.fc.Clauses {
				if rc.Kind == "requires" && rc.Behav == cl.Behav {
					r, _ := g.expr(rc.E)
					reqs = append(reqs, "("+r+")")
				}
			}
			if len(reqs) > 0 {
				guard = strings.Join(reqs, " && ")
			}
		}
		label := cl.Label
		if label == "" {
			label = cl.Text
		}
		fmt.Fprintf(&body, "\tif (%s) && !(%s) { t.Errorf(\"REPLAY-VIOLATION ensures %%s violated\", %s) }\n", guard, c, strconv.Quote(label))
		nchecks++
	}
	if nchecks == 0 {
		rr.Skipped = "no executable postcondition"
		return rr
	}
	var src strings.Builder
	fmt.Fprintf(&src, "package %s\n\nimport \"testing\"\n", fn.Pkg.Pkg.Name())
	for _, ip := range sortedKeys(imports) {
		fmt.Fprintf(&src, "import %q\n", ip)
	}
	src.WriteString("\nvar racBound = 8\n\n")
	testName := "TestFoxvcReplay"
	src.WriteString(g.specFuncs())
	fmt.Fprintf(&src, "\nfunc %s(t *testing.T) {\n%s}\n", testName, body.String())
	os.MkdirAll(outDir, 0o755)
	base := sanitize(ob.Name)
	testFile := filepath.Join(outDir, base+"_replay_test.go")
	os.WriteFile(testFile, []byte(src.String()), 0o644)
	pkgDir := filepath.Dir(w.fset.Position(fn.Pos()).Filename)
	ov := map[string]interface{}{"Replace": map[string]string{filepath.Join(pkgDir, "zz_foxvc_replay_test.go"): testFile}}
	ovData, _ := json.Marshal(ov)
	ovFile := filepath.Join(outDir, base+"_overlay.json")
	os.WriteFile(ovFile, ovData, 0o644)
	cmdline := []string{"go", "test", "-overlay", ovFile, "-vet=off", "-count=1", "-timeout", "60s", "-run", "^" + testName + "$", "."}
	rr.Cmd = "cd " + pkgDir + " && GOFLAGS=-mod=mod GOPROXY=off " + strings.Join(cmdline, " ")
	rr.TestFile = testFile
	cmd := exec.Command(cmdline[0], cmdline[1:]...)
	cmd.Dir = pkgDir
	cmd.Env = append(os.Environ(), "GOFLAGS=-mod=mod", "GOPROXY=off")
	done := make(chan struct{})
	var out []byte
	go func() { out, _ = cmd.CombinedOutput(); close(done) }()
	select {
	case <-done:
	case <-time.After(120 * time.Second):
		if cmd.Process != nil {
			cmd.Process.Kill()
		}
		<-done
	}
	rr.Output = truncate(string(out), 3000)
	rr.Confirmed = strings.Contains(string(out), "REPLAY-VIOLATION")
	return rr
}

func resultTypes(sig *types.Signature, qual types.Qualifier) string {
	var ts []string
	for i := 0; i < sig.Results().Len(); i++ {
		ts = append(ts, types.TypeString(sig.Results().At(i).Type(), qual))
	}
	return strings.Join(ts, ", ")
}
