package main

// Runtime assertion checking: contract expressions compiled to Go, used to
// replay solver counterexamples against the real code (go test -overlay).

import (
	"encoding/json"
	"fmt"
	"go/types"
	"os"
	"os/exec"
	"path/filepath"
	"strconv"
	"strings"
	"time"

	"golang.org/x/tools/go/ssa"
)

type racGen struct {
	w        *World
	pkg      *ssa.Package
	kinds    map[string]string // variable -> int|bool|string|bytes|error|other
	types    map[string]types.Type
	execMemo map[string]bool
	funcs    map[string]bool // spec functions needed
	out      strings.Builder
	fail     string
}

func kindOfType(t types.Type) string {
	switch u := t.Underlying().(type) {
	case *types.Basic:
		switch {
		case u.Info()&types.IsBoolean != 0:
			return "bool"
		case u.Info()&types.IsString != 0:
			return "string"
		case u.Info()&types.IsInteger != 0:
			return "int"
		}
	case *types.Slice:
		if b, ok := u.Elem().Underlying().(*types.Basic); ok && b.Kind() == types.Uint8 {
			return "bytes"
		}
	case *types.Interface:
		if t.String() == "error" {
			return "error"
		}
	}
	return "other"
}

func kindOfName(s string) string {
	switch s {
	case "int", "byte", "uint8", "uint32", "uint16", "int64", "uint64", "uint":
		return "int"
	case "bool":
		return "bool"
	case "string":
		return "string"
	case "[]byte":
		return "bytes"
	case "error":
		return "error"
	}
	return "other"
}

func goTypeOfKind(k string) string {
	switch k {
	case "int":
		return "int"
	case "bool":
		return "bool"
	case "string":
		return "string"
	case "bytes":
		return "[]byte"
	case "error":
		return "error"
	}
	return "interface{}"
}

// expr compiles e to a Go expression and returns (code, kind).
func (g *racGen) expr(e Expr) (string, string) {
	switch x := e.(type) {
	case *IntLit:
		return strconv.FormatInt(x.V, 10), "int"
	case *BoolLit:
		return strconv.FormatBool(x.V), "bool"
	case *StrLit:
		return strconv.Quote(x.S), "string"
	case *Ident:
		if x.Name == "nil" {
			return "nil", "nil"
		}
		if k, ok := g.kinds[x.Name]; ok {
			if k == "int" {
				return "int(" + goIdent(x.Name) + ")", "int"
			}
			return goIdent(x.Name), k
		}
		if g.pkg != nil {
			if o := g.pkg.Pkg.Scope().Lookup(x.Name); o != nil {
				if c, ok := o.(*types.Const); ok {
					k := kindOfType(c.Type())
					if k == "int" {
						return "int(" + x.Name + ")", "int"
					}
					return x.Name, k
				}
			}
		}
		g.fail = "identifier " + x.Name + " not available at run time"
		return "0", "int"
	case *Unary:
		a, k := g.expr(x.X)
		switch x.Op {
		case "!":
			return "!(" + a + ")", "bool"
		case "-":
			return "-(" + a + ")", k
		}
	case *Binary:
		switch x.Op {
		case "==>":
			a, _ := g.expr(x.X)
			b, _ := g.expr(x.Y)
			return "(!(" + a + ") || (" + b + "))", "bool"
		case "<==>":
			a, _ := g.expr(x.X)
			b, _ := g.expr(x.Y)
			return "((" + a + ") == (" + b + "))", "bool"
		case "&&", "||":
			a, _ := g.expr(x.X)
			b, _ := g.expr(x.Y)
			return "((" + a + ") " + x.Op + " (" + b + "))", "bool"
		}
		a, ka := g.expr(x.X)
		b, kb := g.expr(x.Y)
		switch x.Op {
		case "==", "!=", "<", "<=", ">", ">=":
			if ka == "bytes" || kb == "bytes" {
				g.fail = "comparison of byte slices"
			}
			return "((" + a + ") " + x.Op + " (" + b + "))", "bool"
		case "+", "-", "*", "/", "%", "&", "|":
			k := ka
			if k == "nil" {
				k = kb
			}
			return "((" + a + ") " + x.Op + " (" + b + "))", k
		}
	case *CondE:
		c, _ := g.expr(x.C)
		a, k := g.expr(x.A)
		b, _ := g.expr(x.B)
		return fmt.Sprintf("func() %s { if %s { return %s }; return %s }()", goTypeOfKind(k), c, a, b), k
	case *IndexE:
		a, _ := g.expr(x.X)
		i, _ := g.expr(x.I)
		return "int(" + a + "[" + i + "])", "int"
	case *SliceE:
		a, k := g.expr(x.X)
		lo, hi := "", ""
		if x.Lo != nil {
			lo, _ = g.expr(x.Lo)
		}
		if x.Hi != nil {
			hi, _ = g.expr(x.Hi)
		}
		return a + "[" + lo + ":" + hi + "]", k
	case *SelE:
		if id, ok := x.X.(*Ident); ok {
			if t, ok := g.types[id.Name]; ok {
				if st, _, ok := derefStruct(t); ok {
					for i := 0; i < st.NumFields(); i++ {
						if st.Field(i).Name() == x.Name {
							k := kindOfType(st.Field(i).Type())
							code := goIdent(id.Name) + "." + x.Name
							if k == "int" {
								code = "int(" + code + ")"
							}
							return code, k
						}
					}
				}
			}
		}
		g.fail = "selector not executable: " + e.String()
		return "0", "int"
	case *CallE:
		switch x.Fun {
		case "len", "cap":
			a, _ := g.expr(x.Args[0])
			return x.Fun + "(" + a + ")", "int"
		case "old":
			return g.expr(x.Args[0])
		case "min", "max":
			a, _ := g.expr(x.Args[0])
			b, _ := g.expr(x.Args[1])
			return x.Fun + "(" + a + ", " + b + ")", "int"
		}
		if sf, ok := g.w.cs.Specs[x.Fun]; ok && (sf.Body != nil || sf.Exec != "") {
			if !g.executable(sf) {
				g.fail = "function " + x.Fun + " not executable"
				return "0", "int"
			}
			g.funcs[x.Fun] = true
			var as []string
			for _, a := range x.Args {
				c, _ := g.expr(a)
				as = append(as, c)
			}
			return "spec_" + x.Fun + "(" + strings.Join(as, ", ") + ")", kindOfName(sf.Result)
		}
		g.fail = "function " + x.Fun + " not executable"
		return "0", "int"
	case *Quant:
		save := map[string]string{}
		for _, qv := range x.Vars {
			save[qv.Name] = g.kinds[qv.Name]
			g.kinds[qv.Name] = "rawint"
		}
		body, _ := g.expr(x.Body)
		var b strings.Builder
		b.WriteString("func() bool { ")
		for _, qv := range x.Vars {
			fmt.Fprintf(&b, "for %s := -2; %s <= racBound; %s++ { ", goIdent(qv.Name), goIdent(qv.Name), goIdent(qv.Name))
		}
		if x.Forall {
			fmt.Fprintf(&b, "if !(%s) { return false }; ", body)
		} else {
			fmt.Fprintf(&b, "if %s { return true }; ", body)
		}
		for range x.Vars {
			b.WriteString("}; ")
		}
		fmt.Fprintf(&b, "return %v }()", x.Forall)
		for _, qv := range x.Vars {
			if save[qv.Name] == "" {
				delete(g.kinds, qv.Name)
			} else {
				g.kinds[qv.Name] = save[qv.Name]
			}
		}
		return b.String(), "bool"
	}
	g.fail = "expression not executable: " + e.String()
	return "false", "bool"
}

// executable: the spec function (transitively) compiles to Go.
func (g *racGen) executable(sf *SpecFun) bool {
	if sf.Exec != "" {
		return true
	}
	if sf.Body == nil {
		return false
	}
	if ok, seen := g.execMemo[sf.Name]; seen {
		return ok
	}
	if g.execMemo == nil {
		g.execMemo = map[string]bool{}
	}
	g.execMemo[sf.Name] = true // assume ok for recursion
	sub := &racGen{w: g.w, pkg: g.pkg, kinds: map[string]string{}, funcs: map[string]bool{}, types: map[string]types.Type{}, execMemo: g.execMemo}
	for _, p := range sf.Params {
		sub.kinds[p.Name] = kindOfName(p.Type)
	}
	sub.expr(sf.Body)
	ok := sub.fail == ""
	g.execMemo[sf.Name] = ok
	for f := range sub.funcs {
		g.funcs[f] = true
	}
	return ok
}

func goIdent(s string) string {
	switch s {
	case "len", "cap", "type", "func", "range", "map":
		return s + "_"
	}
	return s
}

func (g *racGen) specFuncs() string {
	var b strings.Builder
	done := map[string]bool{}
	for {
		progress := false
		for _, name := range sortedKeys(g.funcs) {
			if done[name] {
				continue
			}
			done[name] = true
			progress = true
			sf := g.w.cs.Specs[name]
			saved := g.kinds
			g.kinds = map[string]string{}
			var ps []string
			for _, p := range sf.Params {
				k := kindOfName(p.Type)
				g.kinds[p.Name] = k
				ps = append(ps, goIdent(p.Name)+" "+goTypeOfKind(k))
			}
			var body string
			if sf.Exec != "" {
				body = sf.Exec
			} else {
				body, _ = g.expr(sf.Body)
			}
			g.kinds = saved
			fmt.Fprintf(&b, "func spec_%s(%s) %s { return %s }\n", name, strings.Join(ps, ", "), goTypeOfKind(kindOfName(sf.Result)), body)
		}
		if !progress {
			break
		}
	}
	return b.String()
}

type ReplayResult struct {
	Confirmed bool
	Output    string
	Cmd       string
	TestFile  string
	Input     map[string]interface{}
	Skipped   string
	Mode      string // model | bounded-search
	Witness   string
}

// charLits collects character literals of a contract (alphabet for the bounded search).
func charLits(fc *FuncContract, w *World) []byte {
	seen := map[byte]bool{'a': true, '0': true}
	var visit func(e Expr, depth int)
	visit = func(e Expr, depth int) {
		walkExpr(e, func(x Expr) {
			if l, ok := x.(*IntLit); ok && l.V >= 33 && l.V < 127 {
				seen[byte(l.V)] = true
			}
			if c, ok := x.(*CallE); ok && depth < 4 {
				if sf, ok := w.cs.Specs[c.Fun]; ok && sf.Body != nil {
					visit(sf.Body, depth+1)
				}
			}
		})
	}
	for _, cl := range fc.Clauses {
		visit(cl.E, 0)
	}
	var out []byte
	for c := byte(33); c < 127; c++ {
		if seen[c] {
			out = append(out, c)
		}
	}
	return out
}

// replay runs the real function with the contract evaluated at run time: first on
// the model's input (if any), then -- when that does not reproduce a failure -- on
// every input of a small bounded space (strings over the contract's character
// literals), to find a concrete failing input for the report.
func (w *World) replay(v *FnVC, ob *Obligation, input map[string]interface{}, outDir string, search bool) *ReplayResult {
	rr := &ReplayResult{Input: input, Mode: "model"}
	if search {
		rr.Mode = "bounded-search"
	}
	fn := v.fn
	g := &racGen{w: w, pkg: fn.Pkg, kinds: map[string]string{}, funcs: map[string]bool{}, types: map[string]types.Type{}}
	sig := fn.Signature
	if sig.Recv() != nil && len(v.fc.ReplaySetup) == 0 {
		rr.Skipped = "method receiver: no replay-setup in the contract"
		return rr
	}
	imports := map[string]bool{"fmt": true}
	qual := func(p *types.Package) string {
		if p == fn.Pkg.Pkg {
			return ""
		}
		imports[p.Path()] = true
		return p.Name()
	}
	type inp struct{ name, kind, gotype string }
	var inputs []inp
	for _, ri := range v.fc.ReplayInputs {
		inputs = append(inputs, inp{ri[0], "int", "int"})
	}
	var args []string
	for pi, p := range fn.Params {
		g.types[p.Name()] = p.Type()
		if pi == 0 && sig.Recv() != nil {
			g.kinds[p.Name()] = "other"
			continue
		}
		k := kindOfType(p.Type())
		g.kinds[p.Name()] = k
		if k != "string" && k != "int" && k != "bool" {
			rr.Skipped = "parameter " + p.Name() + " of type " + p.Type().String() + " cannot be built from a model"
			return rr
		}
		inputs = append(inputs, inp{p.Name(), k, types.TypeString(p.Type(), qual)})
		args = append(args, goIdent(p.Name()))
	}
	var resNames []string
	for i := 0; i < sig.Results().Len(); i++ {
		r := sig.Results().At(i)
		n := r.Name()
		if n == "" || n == "_" {
			n = "result" + strconv.Itoa(i)
			if i == 0 {
				n = "result"
			}
		}
		g.kinds[n] = kindOfType(r.Type())
		if i == 0 {
			g.kinds["result"] = kindOfType(r.Type())
		}
		g.kinds["result"+strconv.Itoa(i)] = kindOfType(r.Type())
		resNames = append(resNames, n)
	}
	// ---- the check function: returns "" or a description of the violation
	var body strings.Builder
	var ps []string
	for _, in := range inputs {
		ps = append(ps, goIdent(in.name)+" "+in.gotype)
	}
	fmt.Fprintf(&body, "func foxvcCheck(%s) (bad string) {\n", strings.Join(ps, ", "))
	for _, st := range v.fc.ReplaySetup {
		fmt.Fprintf(&body, "\t%s\n", st)
	}
	for _, cl := range v.fc.Clauses {
		if cl.Kind == "requires" && cl.Behav == "" {
			g.fail = ""
			c, _ := g.expr(cl.E)
			if g.fail == "" {
				fmt.Fprintf(&body, "\tif !(%s) { return \"\" }\n", c)
			}
		}
	}
	call := fn.Name() + "(" + strings.Join(args, ", ") + ")"
	if sig.Recv() != nil {
		call = goIdent(fn.Params[0].Name()) + "." + call
	}
	body.WriteString("\tdefer func() { if r := recover(); r != nil { bad = fmt.Sprintf(\"panic: %v\", r) } }()\n")
	if len(resNames) > 0 {
		fmt.Fprintf(&body, "\t%s := %s\n", strings.Join(resNames, ", "), call)
		for i, n := range resNames {
			fmt.Fprintf(&body, "\t_ = %s\n", n)
			if i == 0 && n != "result" {
				fmt.Fprintf(&body, "\tresult := %s; _ = result\n", n)
			}
			if n != "result"+strconv.Itoa(i) {
				fmt.Fprintf(&body, "\tresult%d := %s; _ = result%d\n", i, n, i)
			}
		}
	} else {
		fmt.Fprintf(&body, "\t%s\n", call)
	}
	nchecks := 0
	for _, cl := range v.fc.Clauses {
		if cl.Kind != "ensures" {
			continue
		}
		g.fail = ""
		c, _ := g.expr(cl.E)
		if g.fail != "" {
			continue
		}
		guard := "true"
		if cl.Behav != "" {
			var reqs []string
			for _, rc := range v.fc.Clauses {
				if rc.Kind == "requires" && rc.Behav == cl.Behav {
					r, _ := g.expr(rc.E)
					reqs = append(reqs, "("+r+")")
				}
			}
			if len(reqs) > 0 {
				guard = strings.Join(reqs, " && ")
			}
		}
		label := cl.Label
		if label == "" {
			label = cl.Text
		}
		fmt.Fprintf(&body, "\tif (%s) && !(%s) { return \"ensures \" + %s + \" violated\" }\n", guard, c, strconv.Quote(label))
		nchecks++
	}
	body.WriteString("\treturn \"\"\n}\n")
	if nchecks == 0 {
		rr.Skipped = "no executable postcondition"
		return rr
	}
	// ---- the driver
	var drv strings.Builder
	testName := "TestFoxvcReplay"
	fmt.Fprintf(&drv, "func %s(t *testing.T) {\n", testName)
	if !search {
		var callArgs []string
		maxLen := 4
		for _, in := range inputs {
			val, ok := input[in.name]
			if !ok {
				rr.Skipped = "no model value for " + in.name
				return rr
			}
			switch in.kind {
			case "string":
				s := fmt.Sprint(val)
				if len(s) > maxLen {
					maxLen = len(s)
				}
				callArgs = append(callArgs, in.gotype+"("+strconv.Quote(s)+")")
			default:
				callArgs = append(callArgs, fmt.Sprintf("%s(%v)", in.gotype, val))
			}
		}
		fmt.Fprintf(&drv, "\tracBound = %d\n", maxLen+3)
		fmt.Fprintf(&drv, "\tif bad := foxvcCheck(%s); bad != \"\" { t.Fatalf(\"REPLAY-VIOLATION %%s\", bad) }\n}\n", strings.Join(callArgs, ", "))
	} else {
		// bounded search: one string input enumerated, integer inputs from a small set
		strIdx := -1
		for i, in := range inputs {
			if in.kind == "string" {
				if strIdx >= 0 {
					rr.Skipped = "bounded search supports one string input"
					return rr
				}
				strIdx = i
			}
		}
		if strIdx < 0 {
			rr.Skipped = "bounded search needs a string input"
			return rr
		}
		alpha := charLits(v.fc, w)
		maxL := 7
		for pow(len(alpha), maxL) > 3000000 && maxL > 3 {
			maxL--
		}
		fmt.Fprintf(&drv, "\talpha := []byte(%s)\n\tracBound = %d\n\tdeadline := time.Now().Add(40 * time.Second)\n", strconv.Quote(string(alpha)), maxL+3)
		imports["time"] = true
		drv.WriteString("\tbuf := make([]byte, 0, 16)\n\tn := 0\n\tvar rec func(depth, L int) bool\n\trec = func(depth, L int) bool {\n\t\tif depth == L {\n\t\t\tn++\n\t\t\ts := string(buf)\n")
		// integer inputs: small candidate sets
		var loops, callArgs []string
		for i, in := range inputs {
			if i == strIdx {
				callArgs = append(callArgs, in.gotype+"(s)")
				continue
			}
			switch in.kind {
			case "int":
				loops = append(loops, fmt.Sprintf("for _, %s := range []int{1, 2, 3, 65535} {", goIdent(in.name)))
				callArgs = append(callArgs, in.gotype+"("+goIdent(in.name)+")")
			case "bool":
				loops = append(loops, fmt.Sprintf("for _, %s := range []bool{false, true} {", goIdent(in.name)))
				callArgs = append(callArgs, goIdent(in.name))
			}
		}
		for _, l := range loops {
			drv.WriteString("\t\t\t" + l + "\n")
		}
		fmt.Fprintf(&drv, "\t\t\tif bad := foxvcCheck(%s); bad != \"\" { t.Errorf(\"REPLAY-VIOLATION input=%%q args=%%v: %%s\", s, []interface{}{%s}, bad); return true }\n", strings.Join(callArgs, ", "), strings.Join(callArgs, ", "))
		for range loops {
			drv.WriteString("\t\t\t}\n")
		}
		drv.WriteString("\t\t\treturn n%4096 == 0 && time.Now().After(deadline)\n\t\t}\n\t\tfor _, c := range alpha {\n\t\t\tbuf = append(buf, c)\n\t\t\tif rec(depth+1, L) { return true }\n\t\t\tbuf = buf[:len(buf)-1]\n\t\t}\n\t\treturn false\n\t}\n")
		fmt.Fprintf(&drv, "\tfor L := 0; L <= %d; L++ { if rec(0, L) { break } }\n\tt.Logf(\"searched %%d inputs\", n)\n}\n", maxL)
	}
	var src strings.Builder
	spec := g.specFuncs()
	fmt.Fprintf(&src, "package %s\n\nimport \"testing\"\n", fn.Pkg.Pkg.Name())
	for _, ip := range sortedKeys(imports) {
		fmt.Fprintf(&src, "import %q\n", ip)
	}
	src.WriteString("\nvar racBound = 8\n\n")
	src.WriteString(spec)
	src.WriteString(body.String())
	src.WriteString(drv.String())
	os.MkdirAll(outDir, 0o755)
	base := sanitize(ob.Name)
	if search {
		base += ".search"
	}
	testFile := filepath.Join(outDir, base+"_replay_test.go")
	os.WriteFile(testFile, []byte(src.String()), 0o644)
	pkgDir := filepath.Dir(w.fset.Position(fn.Pos()).Filename)
	ov := map[string]interface{}{"Replace": map[string]string{filepath.Join(pkgDir, "zz_foxvc_replay_test.go"): testFile}}
	ovData, _ := json.Marshal(ov)
	ovFile := filepath.Join(outDir, base+"_overlay.json")
	os.WriteFile(ovFile, ovData, 0o644)
	cmdline := []string{"go", "test", "-overlay", ovFile, "-vet=off", "-count=1", "-timeout", "120s", "-run", "^" + testName + "$", "."}
	rr.Cmd = "cd " + pkgDir + " && GOFLAGS=-mod=mod GOPROXY=off " + strings.Join(cmdline, " ")
	rr.TestFile = testFile
	cmd := exec.Command(cmdline[0], cmdline[1:]...)
	cmd.Dir = pkgDir
	cmd.Env = append(os.Environ(), "GOFLAGS=-mod=mod", "GOPROXY=off")
	done := make(chan struct{})
	var out []byte
	go func() { out, _ = cmd.CombinedOutput(); close(done) }()
	select {
	case <-done:
	case <-time.After(150 * time.Second):
		if cmd.Process != nil {
			cmd.Process.Kill()
		}
		<-done
	}
	rr.Output = truncate(string(out), 3000)
	rr.Confirmed = strings.Contains(string(out), "REPLAY-VIOLATION")
	if rr.Confirmed {
		k := strings.Index(string(out), "REPLAY-VIOLATION")
		line := string(out)[k:]
		if e := strings.Index(line, "\n"); e > 0 {
			line = line[:e]
		}
		rr.Witness = line
	}
	return rr
}

func pow(a, b int) int {
	r := 1
	for i := 0; i < b; i++ {
		r *= a
		if r > 1<<40 {
			return r
		}
	}
	return r
}

func resultTypes(sig *types.Signature, qual types.Qualifier) string {
	var ts []string
	for i := 0; i < sig.Results().Len(); i++ {
		ts = append(ts, types.TypeString(sig.Results().At(i).Type(), qual))
	}
	return strings.Join(ts, ", ")
}
