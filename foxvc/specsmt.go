package main

// Translation of contract expressions to SMT terms, in the context of a
// function being verified (or of a call site).

import (
	"fmt"
	"go/constant"
	"go/token"
	"go/types"
	"strconv"
	"strings"

	"golang.org/x/tools/go/ssa"
)

type Env struct {
	v         *FnVC
	vars      map[string]Term
	st        State
	old       *Env
	results   []Term
	atReturn  bool
	callee    bool // names resolve against callee parameters only (call site)
	pos       token.Pos
	entry     bool
	depth     int
	pkg       *ssa.Package
	loopEntry State // state just before the enclosing loop was entered (for entry(e))
	fallback  *Env  // for old()/entry(): local variables keep their current values
}

func (v *FnVC) newEnv(st State, old *Env) *Env {
	return &Env{v: v, vars: map[string]Term{}, st: st, old: old, entry: old == nil, pkg: v.fn.Pkg}
}

func (v *FnVC) newEnvAt(st State, pos token.Pos) *Env {
	e := v.newEnv(st, v.initEnv)
	e.pos = pos
	return e
}

type specError struct {
	msg string
	cl  *Clause
}

func (v *FnVC) specFail(cl *Clause, format string, args ...interface{}) {
	msg := fmt.Sprintf(format, args...)
	if cl != nil {
		msg = fmt.Sprintf("%s:%d: %s (in %q)", cl.File, cl.Line, msg, cl.Text)
	}
	panic(specError{msg, cl})
}

func (v *FnVC) specBool(e Expr, env *Env, cl *Clause) string {
	return v.specBoolE(e, env, cl)
}

func (v *FnVC) specBoolE(e Expr, env *Env, cl *Clause) string {
	t := v.specTerm(e, env, cl)
	if t.T != nil && v.sortOf(t.T) != "Bool" {
		v.specFail(cl, "expected a boolean expression, got %s", t.T)
	}
	return t.S
}

var tInt = types.Typ[types.Int]
var tBool = types.Typ[types.Bool]
var tString = types.Typ[types.String]

func (v *FnVC) withState(st State, f func()) {
	save := v.st
	saveCur := v.cur
	v.st = st
	// state reads must not be recorded as writes: loads only
	f()
	v.st = save
	v.cur = saveCur
}

func (v *FnVC) specTerm(e Expr, env *Env, cl *Clause) Term {
	switch x := e.(type) {
	case *IntLit:
		return Term{smtInt(x.V), tInt}
	case *BoolLit:
		return Term{strconv.FormatBool(x.V), tBool}
	case *StrLit:
		return Term{strLit(x.S), tString}
	case *Ident:
		return v.specIdent(x.Name, env, cl)
	case *Unary:
		if x.Op == "&" {
			// address of a struct embedded by value: &p.f
			if id, isId := x.X.(*Ident); isId && !env.callee {
				// address of an address-taken (heap-allocated) local variable
				if p := v.lookupLocal(id.Name, env.pos); p != nil && p.Kind == "cell" {
					return Term{p.Base.S, types.NewPointer(p.Typ)}
				}
				v.specFail(cl, "&%s: not an address-taken local", id.Name)
			}
			sel, ok := x.X.(*SelE)
			if !ok {
				v.specFail(cl, "& needs a field selector")
			}
			base := v.specTerm(sel.X, env, cl)
			st, sname, ok := derefStruct(base.T)
			if !ok {
				v.specFail(cl, "& needs a field of a struct pointer")
			}
			for i := 0; i < st.NumFields(); i++ {
				if st.Field(i).Name() == sel.Name {
					if _, isStruct := st.Field(i).Type().Underlying().(*types.Struct); !isStruct {
						v.specFail(cl, "&x.f is supported for struct-typed fields only")
					}
					return Term{v.subRef(base.S, sname, st, i), types.NewPointer(st.Field(i).Type())}
				}
			}
			v.specFail(cl, "no field %s", sel.Name)
		}
		a := v.specTerm(x.X, env, cl)
		switch x.Op {
		case "!":
			return Term{not(a.S), tBool}
		case "-":
			return Term{fmt.Sprintf("(- %s)", a.S), a.T}
		case "*":
			pt, ok := a.T.Underlying().(*types.Pointer)
			if !ok {
				v.specFail(cl, "dereference of non-pointer %s", x.X)
			}
			var out string
			v.withState(env.st, func() {
				out = v.load(&Place{Kind: "cell", Base: a, Typ: pt.Elem()}, token.NoPos)
			})
			return Term{out, pt.Elem()}
		}
	case *Binary:
		return v.specBinary(x, env, cl)
	case *CondE:
		c := v.specBoolE(x.C, env, cl)
		a := v.specTerm(x.A, env, cl)
		b := v.specTerm(x.B, env, cl)
		return Term{fmt.Sprintf("(ite %s %s %s)", c, a.S, b.S), a.T}
	case *IndexE:
		a := v.specTerm(x.X, env, cl)
		i := v.specTerm(x.I, env, cl)
		return v.specIndex(a, i, env, cl)
	case *SliceE:
		a := v.specTerm(x.X, env, cl)
		lo := "0"
		if x.Lo != nil {
			lo = v.specTerm(x.Lo, env, cl).S
		}
		switch a.T.Underlying().(type) {
		case *types.Basic:
			hi := fmt.Sprintf("(s_len %s)", a.S)
			if x.Hi != nil {
				hi = v.specTerm(x.Hi, env, cl).S
			}
			return Term{fmt.Sprintf("(mk_str (s_base %s) (+ (s_off %s) %s) (- %s %s))", a.S, a.S, lo, hi, lo), a.T}
		case *types.Slice:
			hi := fmt.Sprintf("(sl_len %s)", a.S)
			if x.Hi != nil {
				hi = v.specTerm(x.Hi, env, cl).S
			}
			return Term{fmt.Sprintf("(mk_slice (sl_ref %s) (+ (sl_off %s) %s) (- %s %s) (- (sl_cap %s) %s))", a.S, a.S, lo, hi, lo, a.S, lo), a.T}
		}
		v.specFail(cl, "cannot slice %s", x.X)
	case *SelE:
		return v.specSel(x, env, cl)
	case *CallE:
		return v.specCall(x, env, cl)
	case *Quant:
		ne := *env
		ne.vars = map[string]Term{}
		for k, t := range env.vars {
			ne.vars[k] = t
		}
		var binds []string
		var ranges []string
		for _, qv := range x.Vars {
			t := v.w.parseType(qv.Type, env.pkg)
			if t == nil {
				v.specFail(cl, "unknown type %s", qv.Type)
			}
			env.depth++
			n := fmt.Sprintf("%s!%d", sanitize(qv.Name), env.depth+v.nctr)
			v.nctr++
			ne.vars[qv.Name] = Term{n, t}
			binds = append(binds, fmt.Sprintf("(%s %s)", n, v.sortOf(t)))
			if r := v.rangeOf(n, t); r != "true" && !isInt(t) {
				ranges = append(ranges, r)
			}
		}
		body := v.specBoolE(x.Body, &ne, cl)
		q := "forall"
		if !x.Forall {
			q = "exists"
			if len(ranges) > 0 {
				body = and(append(ranges, body)...)
			}
		} else if len(ranges) > 0 {
			body = implies(and(ranges...), body)
		}
		if len(x.Triggers) > 0 {
			var pats []string
			for _, tg := range x.Triggers {
				var ts []string
				for _, te := range tg {
					ts = append(ts, v.specTerm(te, &ne, cl).S)
				}
				pats = append(pats, ":pattern ("+strings.Join(ts, " ")+")")
			}
			body = fmt.Sprintf("(! %s %s)", body, strings.Join(pats, " "))
		}
		return Term{fmt.Sprintf("(%s (%s) %s)", q, strings.Join(binds, " "), body), tBool}
	}
	v.specFail(cl, "unsupported expression %s", e)
	return Term{}
}

func isInt(t types.Type) bool {
	b, ok := t.Underlying().(*types.Basic)
	return ok && (b.Kind() == types.Int || b.Kind() == types.Int64)
}

func (v *FnVC) specIndex(a, i Term, env *Env, cl *Clause) Term {
	switch u := a.T.Underlying().(type) {
	case *types.Basic:
		return Term{fmt.Sprintf("(str_at %s %s)", a.S, i.S), types.Typ[types.Uint8]}
	case *types.Slice:
		var out string
		v.withState(env.st, func() {
			out = v.load(&Place{Kind: "elem", Base: a, Idx: i.S, Typ: u.Elem()}, token.NoPos)
		})
		return Term{out, u.Elem()}
	case *types.Array:
		return Term{fmt.Sprintf("(select %s %s)", a.S, i.S), u.Elem()}
	case *types.Map:
		if isGhostMap(a.T) {
			return Term{fmt.Sprintf("(select %s %s)", a.S, i.S), u.Elem()}
		}
		var out string
		v.withState(env.st, func() {
			kk, _, _ := v.mapKeys(a.T)
			out = fmt.Sprintf("(select (select %s %s) %s)", v.get(kk), a.S, i.S)
		})
		return Term{out, u.Elem()}
	}
	v.specFail(cl, "cannot index %s", a.T)
	return Term{}
}

func (v *FnVC) specSel(x *SelE, env *Env, cl *Clause) Term {
	// package-qualified identifier?
	if id, ok := x.X.(*Ident); ok {
		if _, isVar := env.vars[id.Name]; !isVar {
			if t, ok := v.w.qualified(id.Name, x.Name, env.pkg, v, env); ok {
				return t
			}
		}
	}
	a := v.specTerm(x.X, env, cl)
	// pointer to struct: heap read
	if st, sname, ok := derefStruct(a.T); ok {
		for i := 0; i < st.NumFields(); i++ {
			if st.Field(i).Name() == x.Name {
				var out string
				v.withState(env.st, func() { out = v.loadRef(a.S, st, sname, i) })
				return Term{out, st.Field(i).Type()}
			}
		}
		// promoted field through embedded struct
		for i := 0; i < st.NumFields(); i++ {
			f := st.Field(i)
			if !f.Embedded() {
				continue
			}
			if est, ok := f.Type().Underlying().(*types.Struct); ok {
				for j := 0; j < est.NumFields(); j++ {
					if est.Field(j).Name() == x.Name {
						var out string
						sub := v.subRef(a.S, sname, st, i)
						v.withState(env.st, func() { out = v.loadRef(sub, est, structName(f.Type()), j) })
						return Term{out, est.Field(j).Type()}
					}
				}
			}
		}
		v.specFail(cl, "no field %s in %s", x.Name, sname)
	}
	if st, ok := a.T.Underlying().(*types.Struct); ok {
		for i := 0; i < st.NumFields(); i++ {
			if st.Field(i).Name() == x.Name {
				return Term{fmt.Sprintf("(%s %s)", fieldAcc(v.sortOf(a.T), x.Name, i), a.S), st.Field(i).Type()}
			}
		}
		v.specFail(cl, "no field %s", x.Name)
	}
	v.specFail(cl, "selector %s on %s", x.Name, a.T)
	return Term{}
}

func (v *FnVC) specIdent(name string, env *Env, cl *Clause) Term {
	if t, ok := env.vars[name]; ok {
		return t
	}
	switch name {
	case "nil":
		return Term{"0", types.Typ[types.UntypedNil]}
	case "result":
		if len(env.results) == 0 && !env.callee {
			// a source variable that happens to be called "result"
			if p := v.lookupLocal(name, env.pos); p != nil {
				if _, ok := env.st[p.Key]; ok || p.Kind != "local" {
					var out string
					v.withState(env.st, func() { out = v.load(p, token.NoPos) })
					return Term{out, p.Typ}
				}
			}
		}
		if len(env.results) == 0 {
			v.specFail(cl, "result used outside a postcondition")
		}
		return env.results[0]
	case "nextref":
		return Term{envGet(v, env, "nextref"), tInt}
	}
	if strings.HasPrefix(name, "result") {
		if k, err := strconv.Atoi(name[6:]); err == nil && k < len(env.results) {
			return env.results[k]
		}
	}
	if !env.callee {
		// a source variable of the function under verification
		if env.atReturn || env.entry {
			if t, ok := v.params[name]; ok {
				return t
			}
		}
		if p := v.lookupLocal(name, env.pos); p != nil {
			if _, ok := env.st[p.Key]; ok || p.Kind != "local" {
				var out string
				v.withState(env.st, func() { out = v.load(p, token.NoPos) })
				return Term{out, p.Typ}
			}
		}
		if t, ok := v.params[name]; ok {
			return t
		}
		if env.fallback != nil && v.lookupLocal(name, env.pos) != nil {
			return v.specIdent(name, env.fallback, cl)
		}
	}
	// ghost variable
	if g, ok := v.w.cs.Ghosts[name]; ok {
		return Term{envGet(v, env, v.w.ghostKey(g)), v.w.parseType(g.Type, env.pkg)}
	}
	// package-level constant or variable
	if t, ok := v.w.pkgLevel(name, env.pkg, v, env); ok {
		return t
	}
	if c, ok := v.w.cs.Consts[name]; ok {
		e, err := ParseExpr(c)
		if err == nil {
			return v.specTerm(e, env, cl)
		}
	}
	v.specFail(cl, "unknown identifier %s", name)
	return Term{}
}

func envGet(v *FnVC, env *Env, key string) string {
	var out string
	v.withState(env.st, func() { out = v.get(key) })
	return out
}

// lookupLocal finds the source variable `name` visible at pos.
func (v *FnVC) lookupLocal(name string, pos token.Pos) *Place {
	explicit := -1
	if k := strings.Index(name, "#"); k > 0 {
		n, _ := strconv.Atoi(name[k+1:])
		explicit = n
		name = name[:k]
	}
	var cands []*ssa.Alloc
	for _, b := range v.fn.Blocks {
		for _, ins := range b.Instrs {
			if a, ok := ins.(*ssa.Alloc); ok && a.Comment == name {
				cands = append(cands, a)
			}
		}
	}
	if len(cands) == 0 {
		return nil
	}
	pick := cands[0]
	if explicit > 0 && explicit <= len(cands) {
		pick = cands[explicit-1]
	} else if len(cands) > 1 && pos.IsValid() {
		// use the type checker's scopes
		if obj := v.w.scopeLookup(v.fn, name, pos); obj != nil {
			for _, c := range cands {
				if c.Pos() == obj.Pos() {
					pick = c
				}
			}
		}
	}
	if p, ok := v.places[pick]; ok {
		return p
	}
	if t, ok := v.vals[pick]; ok {
		// heap-allocated variable
		return &Place{Kind: "cell", Base: t, Typ: pick.Type().(*types.Pointer).Elem()}
	}
	return nil
}

func (v *FnVC) specBinary(x *Binary, env *Env, cl *Clause) Term {
	switch x.Op {
	case "&&":
		return Term{and(v.specBoolE(x.X, env, cl), v.specBoolE(x.Y, env, cl)), tBool}
	case "||":
		return Term{or(v.specBoolE(x.X, env, cl), v.specBoolE(x.Y, env, cl)), tBool}
	case "==>":
		return Term{implies(v.specBoolE(x.X, env, cl), v.specBoolE(x.Y, env, cl)), tBool}
	case "<==>":
		return Term{fmt.Sprintf("(= %s %s)", v.specBoolE(x.X, env, cl), v.specBoolE(x.Y, env, cl)), tBool}
	}
	a := v.specTerm(x.X, env, cl)
	b := v.specTerm(x.Y, env, cl)
	switch x.Op {
	case "==", "!=":
		var s string
		switch {
		case isNilT(b):
			s = isNilTerm(a)
		case isNilT(a):
			s = isNilTerm(b)
		case isString(a.T) || isString(b.T):
			s = strEqTerm(a.S, b.S)
			if strings.HasPrefix(s, "(streq ") {
				s = fmt.Sprintf("(or (= %s %s) %s)", a.S, b.S, s)
			}
		default:
			s = fmt.Sprintf("(= %s %s)", a.S, b.S)
		}
		if x.Op == "!=" {
			s = not(s)
		}
		return Term{s, tBool}
	case "<", "<=", ">", ">=":
		return Term{fmt.Sprintf("(%s %s %s)", x.Op, a.S, b.S), tBool}
	case "+":
		if isString(a.T) {
			return Term{v.concat(a.S, b.S), a.T}
		}
		return Term{fmt.Sprintf("(+ %s %s)", a.S, b.S), a.T}
	case "-":
		return Term{fmt.Sprintf("(- %s %s)", a.S, b.S), a.T}
	case "*":
		return Term{fmt.Sprintf("(* %s %s)", a.S, b.S), a.T}
	case "/":
		return Term{fmt.Sprintf("(div %s %s)", a.S, b.S), a.T}
	case "%":
		return Term{fmt.Sprintf("(mod %s %s)", a.S, b.S), a.T}
	case "&":
		return Term{fmt.Sprintf("(band %s %s)", a.S, b.S), a.T}
	case "|":
		return Term{fmt.Sprintf("(bor %s %s)", a.S, b.S), a.T}
	}
	v.specFail(cl, "unsupported operator %s", x.Op)
	return Term{}
}

func isNilT(t Term) bool {
	b, ok := t.T.(*types.Basic)
	return ok && b.Kind() == types.UntypedNil
}

func isNilTerm(a Term) string {
	if _, ok := a.T.Underlying().(*types.Slice); ok {
		return fmt.Sprintf("(= (sl_ref %s) 0)", a.S)
	}
	return fmt.Sprintf("(= %s 0)", a.S)
}

func (v *FnVC) specCall(x *CallE, env *Env, cl *Clause) Term {
	switch x.Fun {
	case "len":
		a := v.specTerm(x.Args[0], env, cl)
		switch u := a.T.Underlying().(type) {
		case *types.Basic:
			return Term{fmt.Sprintf("(s_len %s)", a.S), tInt}
		case *types.Slice:
			return Term{fmt.Sprintf("(sl_len %s)", a.S), tInt}
		case *types.Array:
			return Term{strconv.FormatInt(u.Len(), 10), tInt}
		}
		v.specFail(cl, "len of %s", a.T)
	case "cap":
		a := v.specTerm(x.Args[0], env, cl)
		return Term{fmt.Sprintf("(sl_cap %s)", a.S), tInt}
	case "old":
		if env.old == nil {
			return v.specTerm(x.Args[0], env, cl)
		}
		oe := *env.old
		oe.vars = map[string]Term{}
		for k, t := range env.old.vars {
			oe.vars[k] = t
		}
		// bound variables of enclosing quantifiers stay visible
		for k, t := range env.vars {
			if _, ok := oe.vars[k]; !ok {
				oe.vars[k] = t
			}
		}
		oe.pos = env.pos
		oe.results = env.results
		oe.fallback = env
		return v.specTerm(x.Args[0], &oe, cl)
	case "entry":
		if env.loopEntry == nil {
			v.specFail(cl, "entry() used outside a loop invariant")
		}
		ne := *env
		ne.st = env.loopEntry
		return v.specTerm(x.Args[0], &ne, cl)
	case "ref":
		a := v.specTerm(x.Args[0], env, cl)
		if _, ok := a.T.Underlying().(*types.Slice); ok {
			return Term{fmt.Sprintf("(sl_ref %s)", a.S), tInt}
		}
		return Term{a.S, tInt}
	case "off":
		a := v.specTerm(x.Args[0], env, cl)
		return Term{fmt.Sprintf("(sl_off %s)", a.S), tInt}
	case "fresh":
		// allocated during this call: not below the entry allocation pointer
		a := v.specTerm(x.Args[0], env, cl)
		base := env
		for base.old != nil {
			base = base.old
		}
		r := a.S
		if _, ok := a.T.Underlying().(*types.Slice); ok {
			r = fmt.Sprintf("(sl_ref %s)", a.S)
		}
		return Term{fmt.Sprintf("(>= %s %s)", r, envGet(v, base, "nextref")), tBool}
	case "arrayOf":
		// the whole backing array of a slice, as a value (for frame statements)
		a := v.specTerm(x.Args[0], env, cl)
		sl, ok := a.T.Underlying().(*types.Slice)
		if !ok {
			v.specFail(cl, "arrayOf needs a slice")
		}
		var out string
		v.withState(env.st, func() { out = fmt.Sprintf("(select %s (sl_ref %s))", v.get(v.elemKey(sl.Elem())), a.S) })
		return Term{out, types.NewArray(sl.Elem(), 0)}
	case "same":
		a := v.specTerm(x.Args[0], env, cl)
		b := v.specTerm(x.Args[1], env, cl)
		return Term{fmt.Sprintf("(= %s %s)", a.S, b.S), tBool}
	case "streq":
		a := v.specTerm(x.Args[0], env, cl)
		b := v.specTerm(x.Args[1], env, cl)
		return Term{strEqTerm(a.S, b.S), tBool}
	case "int":
		return Term{v.specTerm(x.Args[0], env, cl).S, tInt}
	case "dyntype":
		return Term{fmt.Sprintf("(dyntype %s)", v.specTerm(x.Args[0], env, cl).S), tInt}
	case "unbox":
		// unbox(x, T): the value of dynamic type T held by interface value x
		a := v.specTerm(x.Args[0], env, cl)
		tn := x.Args[1].String()
		tt := v.w.parseType(tn, env.pkg)
		if tt == nil {
			v.specFail(cl, "unknown type %s", tn)
		}
		sort := v.sortOf(tt)
		return Term{fmt.Sprintf("(%s %s)", v.w.unboxFn(tt, sort), a.S), tt}
	case "box":
		a := v.specTerm(x.Args[0], env, cl)
		return Term{fmt.Sprintf("(%s %s)", v.w.boxFn(a.T, v.sortOf(a.T)), a.S), types.Universe.Lookup("any").Type()}
	case "dyntypeIs":
		a := v.specTerm(x.Args[0], env, cl)
		tn := x.Args[1].String()
		tt := v.w.parseType(tn, env.pkg)
		if tt == nil {
			v.specFail(cl, "unknown type %s", tn)
		}
		return Term{fmt.Sprintf("(and (not (= %s 0)) (= (dyntype %s) %d))", a.S, a.S, v.w.typeTag(tt)), tBool}
	case "implements":
		// implements(x, pkg.Iface)
		a := v.specTerm(x.Args[0], env, cl)
		tn := x.Args[1].String()
		it := v.w.parseType(tn, env.pkg)
		if it == nil {
			v.specFail(cl, "unknown interface type %s", tn)
		}
		return Term{fmt.Sprintf("(and (not (= %s 0)) (%s (dyntype %s)))", a.S, v.w.implFn(it), a.S), tBool}
	case "min":
		a := v.specTerm(x.Args[0], env, cl)
		b := v.specTerm(x.Args[1], env, cl)
		return Term{fmt.Sprintf("(imin %s %s)", a.S, b.S), a.T}
	case "max":
		a := v.specTerm(x.Args[0], env, cl)
		b := v.specTerm(x.Args[1], env, cl)
		return Term{fmt.Sprintf("(imax %s %s)", a.S, b.S), a.T}
	}
	if sf, ok := v.w.cs.Specs[x.Fun]; ok {
		return v.specApply(sf, x, env, cl)
	}
	// a Go function usable in specs (pure, with contract): uninterpreted application
	if t, ok := v.w.pureCall(x, env, v, cl); ok {
		return t
	}
	v.specFail(cl, "unknown function %s", x.Fun)
	return Term{}
}

// specApply: predicates and spec functions with a body are expanded in place
// (they may read the heap of the current state); without a body they are
// uninterpreted.
func (v *FnVC) specApply(sf *SpecFun, x *CallE, env *Env, cl *Clause) Term {
	if len(x.Args) != len(sf.Params) {
		v.specFail(cl, "%s expects %d arguments", sf.Name, len(sf.Params))
	}
	pkg := v.w.pkgByPath(sf.Pkg)
	if pkg == nil {
		pkg = env.pkg
	}
	rt := v.w.parseType(sf.Result, pkg)
	if rt == nil {
		v.specFail(cl, "unknown result type %s of %s", sf.Result, sf.Name)
	}
	var args []Term
	for i, a := range x.Args {
		at := v.specTerm(a, env, cl)
		// implicit conversion of a concrete value to an interface parameter
		if pt := v.w.parseType(sf.Params[i].Type, pkg); pt != nil && types.IsInterface(pt) && at.T != nil && !types.IsInterface(at.T) && !isNilT(at) {
			at = Term{fmt.Sprintf("(%s %s)", v.w.boxFn(at.T, v.sortOf(at.T)), at.S), pt}
		}
		args = append(args, at)
	}
	if (sf.Rec || sf.Opaque) && sf.Body != nil {
		name := v.declareRecFun(sf, pkg, cl)
		var as []string
		if v.symHeaps != nil {
			for _, k := range sf.RecKeys {
				as = append(as, v.get(k))
			}
		} else {
			v.withState(env.st, func() {
				for _, k := range sf.RecKeys {
					as = append(as, v.get(k))
				}
			})
		}
		for _, a := range args {
			as = append(as, a.S)
		}
		return Term{fmt.Sprintf("(%s %s)", name, strings.Join(as, " ")), rt}
	}
	if sf.Body == nil {
		name := v.w.declareSpecFun(sf, v, pkg)
		if len(args) == 0 {
			return Term{name, rt}
		}
		var as []string
		for _, a := range args {
			as = append(as, a.S)
		}
		return Term{fmt.Sprintf("(%s %s)", name, strings.Join(as, " ")), rt}
	}
	if env.depth > 40 {
		v.specFail(cl, "recursive predicate %s", sf.Name)
	}
	ne := &Env{v: v, vars: map[string]Term{}, st: env.st, old: env.old, results: env.results, atReturn: env.atReturn, callee: true, pos: env.pos, depth: env.depth + 1, pkg: pkg, loopEntry: env.loopEntry}
	for i, p := range sf.Params {
		pt := v.w.parseType(p.Type, pkg)
		if pt == nil {
			v.specFail(cl, "unknown type %s in %s", p.Type, sf.Name)
		}
		ne.vars[p.Name] = Term{args[i].S, pt}
	}
	t := v.specTerm(sf.Body, ne, &Clause{Text: sf.Text, File: sf.File, Line: sf.Line})
	return Term{t.S, rt}
}

func constTermOf(c *types.Const, sorts *Sorts) (Term, bool) {
	val := c.Val()
	switch val.Kind() {
	case constant.Int:
		if i, ok := constant.Int64Val(val); ok {
			return Term{smtInt(i), c.Type()}, true
		}
	case constant.Bool:
		return Term{strconv.FormatBool(constant.BoolVal(val)), c.Type()}, true
	case constant.String:
		return Term{strLit(constant.StringVal(val)), c.Type()}, true
	}
	return Term{}, false
}

// declareRecFun emits a recursive spec function as define-fun-rec; the heaps its body
// reads become explicit leading parameters (found by a first translation pass).
func (v *FnVC) declareRecFun(sf *SpecFun, pkg *ssa.Package, cl *Clause) string {
	name := "spec." + sf.Name
	if v.w.declared[name] || v.w.recInProgress[sf.Name] {
		return name
	}
	if v.w.recInProgress == nil {
		v.w.recInProgress = map[string]bool{}
	}
	v.w.recInProgress[sf.Name] = true
	defer delete(v.w.recInProgress, sf.Name)
	translate := func() (string, []string) {
		saveSym, saveBody := v.symHeaps, v.body.String()
		v.symHeaps = map[string]bool{}
		ne := &Env{v: v, vars: map[string]Term{}, st: State{}, callee: true, pkg: pkg}
		for _, p := range sf.Params {
			pt := v.w.parseType(p.Type, pkg)
			if pt == nil {
				v.specFail(cl, "unknown type %s in %s", p.Type, sf.Name)
			}
			ne.vars[p.Name] = Term{"|p!" + sanitize(p.Name) + "|", pt}
		}
		body := v.specTerm(sf.Body, ne, &Clause{Text: sf.Text, File: sf.File, Line: sf.Line})
		keys := sortedKeys(v.symHeaps)
		v.symHeaps = saveSym
		// the body must not have emitted definitions into the function VC
		v.body.Reset()
		v.body.WriteString(saveBody)
		return body.S, keys
	}
	_, keys := translate()
	sf.RecKeys = keys
	body, keys2 := translate()
	sf.RecKeys = keys2
	var ps []string
	for _, k := range sf.RecKeys {
		ps = append(ps, fmt.Sprintf("(|H!%s| %s)", sanitize(k), v.heapSort(k)))
	}
	for _, p := range sf.Params {
		ps = append(ps, fmt.Sprintf("(|p!%s| %s)", sanitize(p.Name), v.sortOf(v.w.parseType(p.Type, pkg))))
	}
	rt := v.w.parseType(sf.Result, pkg)
	if sf.Opaque && !sf.Rec {
		// opaque: an uninterpreted symbol whose definition is only unfolded on its own applications
		var sorts, names []string
		for _, k := range sf.RecKeys {
			sorts = append(sorts, v.heapSort(k))
			names = append(names, "|H!"+sanitize(k)+"|")
		}
		for _, p := range sf.Params {
			sorts = append(sorts, v.sortOf(v.w.parseType(p.Type, pkg)))
			names = append(names, "|p!"+sanitize(p.Name)+"|")
		}
		app := "(" + name + " " + strings.Join(names, " ") + ")"
		v.w.declareOnce(name, fmt.Sprintf("(declare-fun %s (%s) %s)\n(assert (forall (%s) (! (= %s %s) :pattern (%s))))", name, strings.Join(sorts, " "), v.sortOf(rt), strings.Join(ps, " "), app, body, app))
		return name
	}
	v.w.declareOnce(name, fmt.Sprintf("(define-fun-rec %s (%s) %s %s)", name, strings.Join(ps, " "), v.sortOf(rt), body))
	return name
}
