package main

// Contract files: comment-only Go files (build tag verif) inside /repo whose
// `//@` lines carry the specifications.  This file parses them.

import (
	"fmt"
	"os"
	"path/filepath"
	"regexp"
	"sort"
	"strings"
)

type Clause struct {
	Kind   string   // requires, ensures, invariant, decreases, assert, assume-extern ...
	Label  string   // optional label
	Props  []string // property tags (default: function's)
	Text   string
	E      Expr
	Loop   string // loop key for invariant/decreases ("1", "Walk", ...)
	Behav  string // behavior name ("" = default)
	Anchor string // for assert-at
	File   string
	Line   int
}

type SpecParam struct{ Name, Type string }

type SpecFun struct {
	Name    string
	Params  []SpecParam
	Result  string // "" for pred => bool
	Body    Expr   // nil = uninterpreted
	Text    string
	Pkg     string
	Opaque  bool
	File    string
	Line    int
	Trigger bool
	Rec     bool     // recursive: emitted as define-fun-rec with the heaps it reads as explicit parameters
	RecKeys []string // heap keys read by the body (computed on first use)
	Exec    string   // Go expression implementing an uninterpreted spec function at run time (replay only)
}

type Axiom struct {
	Name  string
	E     Expr
	Text  string
	Pkg   string
	Lemma bool // proved from the axioms and lemmas declared before it
	Props []string
}

type FuncContract struct {
	Pkg          string // package path
	Name         string // e.g. CleanPath, (*recorder).Write, Router.parseRoute, LoggerWithHandler$1$1
	Props        []string
	Clauses      []*Clause
	Modifies     []string
	Extern       bool // contract assumed, body not verified
	Partial      bool // partial correctness only: safety obligations not claimed
	Pure         bool // callable from specs as an uninterpreted function
	Inline       bool
	Effects      []string
	Behavs       []string
	File         string
	Line         int
	Trusted      string // reason why extern
	NoPanic      bool
	MayPanic     bool // the callee may panic for reasons outside its panics-when clauses (runs caller-supplied code)
	NoAlloc      bool
	NoAllocProps []string
	Ghosts       []*Clause   // ghost statements anchored in the body
	GhostSets    [][3]string // anchor (entry|return|call NAME#k|after NAME#k), ghost variable, expression
	GhostSetTags []string    // property tags of each ghost-set ("" = the function's)
	SinceGhost   string      // modifies-since G : heaps  -- objects with reference >= old(G) may be written in these heaps
	SinceHeaps   []string
	ParamNames   []string    // explicit parameter names (function-value and interface contracts whose signature has none)
	Implements   []string    // names of contracts (same package) whose clauses this function must also satisfy
	ReplayInputs [][2]string // name, spec expression (evaluated at entry)
	ReplaySetup  []string    // Go statements building the receiver / environment
}

type GhostVar struct {
	Name string
	Type string
	Pkg  string
}

type Contracts struct {
	Funcs     map[string]*FuncContract // key pkgpath + "." + name
	Specs     map[string]*SpecFun      // key: name (global namespace)
	Axioms    []*Axiom
	Ghosts    map[string]*GhostVar
	Order     []string
	Files     []string
	Consts    map[string]string
	Types     map[string]string // spec type aliases: name -> Go type expression
	Audits    []Audit
	NonGlobal []string
	Effects   []EffectDecl
}

type Audit struct {
	Kind   string
	Pkg    string
	Props  []string
	Tables []string
}

type EffectDecl struct {
	Pkg    string
	Func   string
	Effect string
	Props  []string
	Except []string // callees not descended into (assumed to have the effect)
	Line   int
	File   string
}

var keywordRe = regexp.MustCompile(`^(ghost-set|modifies-since|params|implements|audit|nonglobal|type|exec|replay-input|replay-setup|pred|fun|axiom|func|extern|requires|ensures-on-panic|ensures|modifies|loop|behavior|props|partial|pure|inline|ghost|assert-at|assume-at|effects|trusted|nopanic|may-panic|noalloc|panics-when|package|const|lemma)\b`)

type rawLine struct {
	text string
	file string
	line int
}

// LoadContracts reads every verif_contracts*.go under root plus extra spec files.
func LoadContracts(root string, extra []string) (*Contracts, error) {
	cs := &Contracts{Funcs: map[string]*FuncContract{}, Specs: map[string]*SpecFun{}, Ghosts: map[string]*GhostVar{}, Consts: map[string]string{}, Types: map[string]string{}}
	var files []string
	filepath.Walk(root, func(p string, info os.FileInfo, err error) error {
		if err != nil {
			return nil
		}
		if info.IsDir() && (info.Name() == ".git" || info.Name() == "testdata") {
			return filepath.SkipDir
		}
		if !info.IsDir() && strings.HasPrefix(info.Name(), "verif_contracts") && strings.HasSuffix(info.Name(), ".go") {
			files = append(files, p)
		}
		return nil
	})
	sort.Strings(files)
	files = append(files, extra...)
	cs.Files = files
	for _, f := range files {
		if err := cs.loadFile(f); err != nil {
			return nil, err
		}
	}
	return cs, nil
}

func (cs *Contracts) loadFile(path string) error {
	data, err := os.ReadFile(path)
	if err != nil {
		return err
	}
	// group lines into statements
	var stmts []rawLine
	pkg := ""
	for i, ln := range strings.Split(string(data), "\n") {
		t := strings.TrimSpace(ln)
		if strings.HasPrefix(t, "//@pkg ") {
			pkg = strings.TrimSpace(t[7:])
			continue
		}
		if !strings.HasPrefix(t, "//@") {
			continue
		}
		body := strings.TrimSpace(t[3:])
		if body == "" || strings.HasPrefix(body, "--") {
			continue
		}
		// strip trailing comment
		if k := strings.Index(body, " -- "); k >= 0 {
			body = strings.TrimSpace(body[:k])
		}
		if keywordRe.MatchString(body) || len(stmts) == 0 {
			stmts = append(stmts, rawLine{body, path, i + 1})
		} else {
			stmts[len(stmts)-1].text += " " + body
		}
	}
	var cur *FuncContract
	behav := ""
	for _, st := range stmts {
		kw := keywordRe.FindString(st.text)
		rest := strings.TrimSpace(st.text[len(kw):])
		fail := func(err error) error {
			return fmt.Errorf("%s:%d: %v", st.file, st.line, err)
		}
		switch kw {
		case "package":
			pkg = rest
			cur = nil
		case "const":
			// const NAME = expr (textual)
			parts := strings.SplitN(rest, "=", 2)
			if len(parts) != 2 {
				return fail(fmt.Errorf("bad const"))
			}
			cs.Consts[strings.TrimSpace(parts[0])] = strings.TrimSpace(parts[1])
		case "pred", "fun":
			sf, err := parseSpecFun(kw, rest)
			if err != nil {
				return fail(err)
			}
			sf.Pkg = pkg
			sf.File, sf.Line = st.file, st.line
			if _, dup := cs.Specs[sf.Name]; dup {
				return fail(fmt.Errorf("duplicate spec function %s", sf.Name))
			}
			cs.Specs[sf.Name] = sf
			cs.Order = append(cs.Order, sf.Name)
			cur = nil
		case "nonglobal":
			cs.NonGlobal = append(cs.NonGlobal, strings.Fields(rest)[0])
		case "audit":
			// audit KIND props P : table, table
			parts := strings.SplitN(rest, ":", 2)
			f := strings.Fields(parts[0])
			a := Audit{Kind: f[0], Pkg: pkg}
			for i := 1; i+1 < len(f); i++ {
				if f[i] == "props" {
					a.Props = strings.Split(f[i+1], ",")
				}
			}
			if len(parts) == 2 {
				a.Tables = splitList(parts[1])
			}
			cs.Audits = append(cs.Audits, a)
		case "type":
			parts := strings.SplitN(rest, "=", 2)
			if len(parts) != 2 {
				return fail(fmt.Errorf("type alias needs 'name = go type'"))
			}
			cs.Types[strings.TrimSpace(parts[0])] = strings.TrimSpace(parts[1]) + "\x00" + pkg
		case "exec":
			parts := strings.SplitN(rest, "=", 2)
			sf := cs.Specs[strings.TrimSpace(parts[0])]
			if len(parts) != 2 || sf == nil {
				return fail(fmt.Errorf("exec needs 'name = go-expression' for a declared fun"))
			}
			sf.Exec = strings.TrimSpace(parts[1])
		case "axiom", "lemma":
			parts := strings.SplitN(rest, ":", 2)
			if len(parts) != 2 {
				return fail(fmt.Errorf("axiom needs 'name: expr'"))
			}
			e, err := ParseExpr(parts[1])
			if err != nil {
				return fail(err)
			}
			hf := strings.Fields(parts[0])
			ax := &Axiom{Name: hf[0], E: e, Text: strings.TrimSpace(parts[1]), Pkg: pkg, Lemma: kw == "lemma"}
			for i := 1; i+1 < len(hf); i++ {
				if hf[i] == "props" {
					ax.Props = strings.Split(hf[i+1], ",")
				}
			}
			cs.Axioms = append(cs.Axioms, ax)
			cur = nil
		case "ghost":
			// ghost var NAME TYPE   (global ghost state)   -- or inside a func: ghost stmt handled by assert-at
			f := strings.Fields(rest)
			if len(f) == 3 && f[0] == "var" {
				cs.Ghosts[f[1]] = &GhostVar{Name: f[1], Type: f[2], Pkg: pkg}
			} else {
				return fail(fmt.Errorf("bad ghost declaration"))
			}
		case "func", "extern":
			f := fieldsBalanced(rest)
			if len(f) == 0 {
				return fail(fmt.Errorf("func needs a name"))
			}
			fpkg := pkg
			name := f[0]
			if kw == "extern" && strings.Contains(name, "/") || (kw == "extern" && len(f) > 1 && f[1] == "in") {
				// extern NAME in PKGPATH
			}
			cur = &FuncContract{Pkg: fpkg, Name: name, Extern: kw == "extern", File: st.file, Line: st.line}
			for i := 1; i < len(f); i++ {
				switch f[i] {
				case "in":
					if i+1 < len(f) {
						cur.Pkg = f[i+1]
						i++
					}
				case "props":
					if i+1 < len(f) {
						cur.Props = strings.Split(f[i+1], ",")
						i++
					}
				case "partial":
					cur.Partial = true
				case "pure":
					cur.Pure = true
				case "inline":
					cur.Inline = true
				}
			}
			key := cur.Pkg + "." + cur.Name
			if _, dup := cs.Funcs[key]; dup {
				return fail(fmt.Errorf("duplicate contract for %s", key))
			}
			cs.Funcs[key] = cur
			behav = ""
		case "props":
			if cur == nil {
				return fail(fmt.Errorf("props outside func"))
			}
			cur.Props = splitList(rest)
		case "partial":
			cur.Partial = true
		case "pure":
			cur.Pure = true
		case "inline":
			cur.Inline = true
		case "nopanic":
			cur.NoPanic = true
		case "may-panic":
			cur.MayPanic = true
		case "noalloc":
			// noalloc [@tags]: the function allocates nothing (callers keep nextref; checked at every return)
			if cur == nil {
				return fail(fmt.Errorf("noalloc outside func"))
			}
			cur.NoAlloc = true
			if strings.HasPrefix(rest, "@") {
				cur.NoAllocProps = strings.Split(strings.TrimSpace(rest[1:]), ",")
			}
		case "ghost-set":
			// ghost-set entry|return : name = expr
			gsTags := ""
			if strings.HasPrefix(rest, "@") {
				k := strings.IndexAny(rest, " \t")
				if k < 0 {
					return fail(fmt.Errorf("ghost-set needs 'anchor : name = expr'"))
				}
				gsTags, rest = rest[1:k], strings.TrimSpace(rest[k:])
			}
			parts := strings.SplitN(rest, ":", 2)
			if cur == nil || len(parts) != 2 {
				return fail(fmt.Errorf("ghost-set needs 'anchor : name = expr'"))
			}
			as := strings.SplitN(parts[1], "=", 2)
			if len(as) != 2 {
				return fail(fmt.Errorf("ghost-set needs 'name = expr'"))
			}
			cur.GhostSets = append(cur.GhostSets, [3]string{strings.TrimSpace(parts[0]), strings.TrimSpace(as[0]), strings.TrimSpace(as[1])})
			cur.GhostSetTags = append(cur.GhostSetTags, gsTags)
		case "modifies-since":
			parts := strings.SplitN(rest, ":", 2)
			if cur == nil || len(parts) != 2 {
				return fail(fmt.Errorf("modifies-since needs 'ghost : heaps'"))
			}
			cur.SinceGhost = strings.TrimSpace(parts[0])
			cur.SinceHeaps = append(cur.SinceHeaps, splitList(parts[1])...)
		case "params":
			if cur == nil {
				return fail(fmt.Errorf("params outside func"))
			}
			cur.ParamNames = splitList(rest)
		case "implements":
			if cur == nil {
				return fail(fmt.Errorf("implements outside func"))
			}
			cur.Implements = append(cur.Implements, splitList(rest)...)
		case "replay-input":
			parts := strings.SplitN(rest, "=", 2)
			if cur == nil || len(parts) != 2 {
				return fail(fmt.Errorf("bad replay-input"))
			}
			cur.ReplayInputs = append(cur.ReplayInputs, [2]string{strings.TrimSpace(parts[0]), strings.TrimSpace(parts[1])})
		case "replay-setup":
			if cur == nil {
				return fail(fmt.Errorf("replay-setup outside func"))
			}
			cur.ReplaySetup = append(cur.ReplaySetup, rest)
		case "trusted":
			cur.Trusted = rest
		case "modifies":
			if cur == nil {
				return fail(fmt.Errorf("modifies outside func"))
			}
			cur.Modifies = append(cur.Modifies, splitList(rest)...)
		case "effects":
			// effects FUNC : e1, e2 [props ...]   (global)   or inside func: effects e1, e2
			if strings.Contains(rest, ":") {
				parts := strings.SplitN(rest, ":", 2)
				effs := parts[1]
				var props, except []string
				if k := strings.Index(effs, " props "); k >= 0 {
					props = splitList(effs[k+7:])
					effs = effs[:k]
				}
				if k := strings.Index(effs, " except "); k >= 0 {
					except = splitList(effs[k+8:])
					effs = effs[:k]
				}
				for _, e := range splitList(effs) {
					cs.Effects = append(cs.Effects, EffectDecl{Pkg: pkg, Func: strings.TrimSpace(parts[0]), Effect: e, Props: props, Except: except, Line: st.line, File: st.file})
				}
			} else if cur != nil {
				cur.Effects = append(cur.Effects, splitList(rest)...)
			}
		case "behavior":
			if cur == nil {
				return fail(fmt.Errorf("behavior outside func"))
			}
			behav = strings.TrimSuffix(strings.TrimSpace(rest), ":")
			cur.Behavs = append(cur.Behavs, behav)
		case "requires", "ensures", "panics-when", "ensures-on-panic":
			if cur == nil {
				return fail(fmt.Errorf("%s outside func", kw))
			}
			cl, err := parseClause(kw, rest)
			if err != nil {
				return fail(err)
			}
			cl.Behav = behav
			cl.File, cl.Line = st.file, st.line
			cur.Clauses = append(cur.Clauses, cl)
		case "loop":
			if cur == nil {
				return fail(fmt.Errorf("loop outside func"))
			}
			parts := strings.SplitN(rest, ":", 2)
			if len(parts) != 2 {
				return fail(fmt.Errorf("loop needs 'key: invariant|decreases expr'"))
			}
			body := strings.TrimSpace(parts[1])
			var kind string
			switch {
			case strings.HasPrefix(body, "invariant"):
				kind = "invariant"
			case strings.HasPrefix(body, "decreases"):
				kind = "decreases"
			default:
				return fail(fmt.Errorf("loop clause must be invariant or decreases"))
			}
			cl, err := parseClause(kind, strings.TrimSpace(body[len(kind):]))
			if err != nil {
				return fail(err)
			}
			cl.Loop = strings.TrimSpace(parts[0])
			cl.Behav = behav
			cl.File, cl.Line = st.file, st.line
			cur.Clauses = append(cur.Clauses, cl)
		case "assert-at", "assume-at":
			// assert-at ANCHOR : [label:] expr
			if cur == nil {
				return fail(fmt.Errorf("%s outside func", kw))
			}
			k := strings.Index(rest, " : ")
			if k < 0 {
				return fail(fmt.Errorf("%s needs 'anchor : expr'", kw))
			}
			cl, err := parseClause(strings.TrimSuffix(kw, "-at"), strings.TrimSpace(rest[k+3:]))
			if err != nil {
				return fail(err)
			}
			cl.Anchor = strings.TrimSpace(rest[:k])
			cl.Behav = behav
			cl.File, cl.Line = st.file, st.line
			cur.Clauses = append(cur.Clauses, cl)
		default:
			return fail(fmt.Errorf("unknown statement %q", st.text))
		}
	}
	return nil
}

func splitList(s string) []string {
	var out []string
	for _, x := range strings.Split(s, ",") {
		x = strings.TrimSpace(x)
		if x != "" {
			out = append(out, x)
		}
	}
	return out
}

var labelRe = regexp.MustCompile(`^(@[A-Z0-9,]+\s+)?([A-Za-z_][A-Za-z0-9_.\-]*)\s*:\s`)
var tagOnlyRe = regexp.MustCompile(`^@([A-Z0-9,]+)\s+`)

func parseClause(kind, rest string) (*Clause, error) {
	cl := &Clause{Kind: kind}
	rest = strings.TrimSpace(rest) + " "
	if m := labelRe.FindStringSubmatch(rest); m != nil && !strings.HasPrefix(rest[len(m[0])-2:], "::") {
		if m[1] != "" {
			cl.Props = strings.Split(strings.TrimSpace(m[1])[1:], ",")
		}
		cl.Label = m[2]
		rest = rest[len(m[0]):]
	} else if m := tagOnlyRe.FindStringSubmatch(rest); m != nil {
		cl.Props = strings.Split(m[1], ",")
		rest = rest[len(m[0]):]
	}
	cl.Text = strings.TrimSpace(rest)
	e, err := ParseExpr(cl.Text)
	if err != nil {
		return nil, err
	}
	cl.E = e
	return cl, nil
}

var specFunRe = regexp.MustCompile(`^([A-Za-z_][A-Za-z0-9_]*)\s*\(([^)]*)\)\s*([^=]*?)\s*(=\s*(.*))?$`)

func parseSpecFun(kw, rest string) (*SpecFun, error) {
	opaque := false
	rec := false
	if strings.HasPrefix(rest, "opaque ") {
		opaque = true
		rest = strings.TrimSpace(rest[7:])
	}
	if strings.HasPrefix(rest, "rec ") {
		rec = true
		rest = strings.TrimSpace(rest[4:])
	}
	m := specFunRe.FindStringSubmatch(rest)
	if m == nil {
		return nil, fmt.Errorf("bad %s declaration: %q", kw, rest)
	}
	sf := &SpecFun{Name: m[1], Text: rest, Opaque: opaque, Rec: rec}
	for _, p := range splitList(m[2]) {
		f := strings.Fields(p)
		if len(f) != 2 {
			return nil, fmt.Errorf("bad parameter %q", p)
		}
		sf.Params = append(sf.Params, SpecParam{f[0], f[1]})
	}
	sf.Result = strings.TrimSpace(m[3])
	if kw == "pred" {
		sf.Result = "bool"
	}
	if sf.Result == "" {
		return nil, fmt.Errorf("fun %s needs a result type", sf.Name)
	}
	if m[5] != "" {
		e, err := ParseExpr(m[5])
		if err != nil {
			return nil, err
		}
		sf.Body = e
	}
	return sf, nil
}

// fieldsBalanced splits on spaces outside square brackets (instantiated generic names contain spaces).
func fieldsBalanced(s string) []string {
	var out []string
	depth := 0
	cur := ""
	for _, r := range s {
		switch {
		case r == '[':
			depth++
			cur += string(r)
		case r == ']':
			depth--
			cur += string(r)
		case (r == ' ' || r == '\t') && depth == 0:
			if cur != "" {
				out = append(out, cur)
				cur = ""
			}
		default:
			cur += string(r)
		}
	}
	if cur != "" {
		out = append(out, cur)
	}
	return out
}
