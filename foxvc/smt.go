package main

// SMT-LIB helpers: sorts, names, prelude.

import (
	"fmt"
	"go/types"
	"regexp"
	"sort"
	"strings"
)

const prelude = `(set-option :produce-models true)
(set-logic ALL)
(declare-datatypes ((Str 0)) (((mk_str (s_base (Array Int Int)) (s_off Int) (s_len Int)))))
(declare-datatypes ((Slice 0)) (((mk_slice (sl_ref Int) (sl_off Int) (sl_len Int) (sl_cap Int)))))
(declare-fun str_at (Str Int) Int)
(assert (forall ((s Str) (i Int)) (! (= (str_at s i) (select (s_base s) (+ (s_off s) i))) :pattern ((str_at s i)))))
(declare-fun idx (Slice Int) Int)
(assert (forall ((s Slice) (i Int)) (! (= (idx s i) (+ (sl_off s) i)) :pattern ((idx s i)))))
(define-fun streq ((a Str) (b Str)) Bool (and (= (s_len a) (s_len b)) (forall ((i Int)) (! (=> (and (<= 0 i) (< i (s_len a))) (= (str_at a i) (str_at b i))) :pattern ((str_at a i)) :pattern ((str_at b i))))))
(declare-fun dyntype (Int) Int)
(define-fun imin ((a Int) (b Int)) Int (ite (<= a b) a b))
(define-fun imax ((a Int) (b Int)) Int (ite (>= a b) a b))
`

const bitsDecl = `(declare-fun band (Int Int) Int)
(declare-fun bor (Int Int) Int)
(declare-fun bxor (Int Int) Int)
(declare-fun bshl (Int Int) Int)
(declare-fun bshr (Int Int) Int)
(assert (forall ((x Int)) (! (= (band x x) x) :pattern ((band x x)))))
(assert (forall ((x Int)) (! (= (band x 0) 0) :pattern ((band x 0)))))
(assert (forall ((x Int)) (! (= (band 0 x) 0) :pattern ((band 0 x)))))
(assert (forall ((x Int) (y Int)) (! (=> (and (>= x 0) (>= y 0)) (and (<= 0 (band x y)) (<= (band x y) x) (<= (band x y) y))) :pattern ((band x y)))))`

func smtInt(v int64) string {
	if v < 0 {
		return fmt.Sprintf("(- %d)", -v)
	}
	return fmt.Sprintf("%d", v)
}

func sanitize(s string) string {
	var b strings.Builder
	for _, r := range s {
		switch {
		case r >= 'a' && r <= 'z', r >= 'A' && r <= 'Z', r >= '0' && r <= '9', r == '_', r == '.', r == '!', r == '$', r == '@', r == '#', r == '%', r == '^', r == '~', r == '-':
			b.WriteRune(r)
		case r == '*':
			b.WriteString("ptr.")
		case r == '[':
			b.WriteString("<")
		case r == ']':
			b.WriteString(">")
		case r == '/':
			b.WriteString("!")
		case r == '(' || r == ')' || r == ' ' || r == ',' || r == '{' || r == '}' || r == ';':
			b.WriteString("_")
		default:
			b.WriteString("_")
		}
	}
	return b.String()
}

func and(xs ...string) string {
	var ys []string
	for _, x := range xs {
		if x == "true" || x == "" {
			continue
		}
		ys = append(ys, x)
	}
	switch len(ys) {
	case 0:
		return "true"
	case 1:
		return ys[0]
	}
	return "(and " + strings.Join(ys, " ") + ")"
}

func or(xs ...string) string {
	var ys []string
	for _, x := range xs {
		if x == "false" || x == "" {
			continue
		}
		ys = append(ys, x)
	}
	switch len(ys) {
	case 0:
		return "false"
	case 1:
		return ys[0]
	}
	return "(or " + strings.Join(ys, " ") + ")"
}

func not(x string) string {
	if x == "true" {
		return "false"
	}
	if x == "false" {
		return "true"
	}
	return "(not " + x + ")"
}

func implies(a, b string) string {
	if a == "true" {
		return b
	}
	return "(=> " + a + " " + b + ")"
}

// typeKey gives a canonical short name of a Go type, used in heap names.
var byteRe = regexp.MustCompile(`\bbyte\b`)
var runeRe = regexp.MustCompile(`\brune\b`)

func typeKey(t types.Type) string {
	s := types.TypeString(t, func(p *types.Package) string { return p.Name() })
	s = byteRe.ReplaceAllString(s, "uint8")
	s = runeRe.ReplaceAllString(s, "int32")
	return sanitize(s)
}

// Sorts registry: struct datatypes declared on demand.
type Sorts struct {
	decls    strings.Builder
	declared map[string]bool
	structs  map[string]*types.Struct
}

func newSorts() *Sorts {
	return &Sorts{declared: map[string]bool{}, structs: map[string]*types.Struct{}}
}

func structName(t types.Type) string {
	var obj *types.TypeName
	if n, ok := t.(*types.Named); ok {
		obj = n.Obj()
	}
	if n, ok := t.(*types.Alias); ok {
		obj = n.Obj()
	}
	if obj != nil {
		// types of the repository keep their short name; others are qualified by their import path
		// (e.g. sync.Mutex embeds internal/sync.Mutex)
		if obj.Pkg() == nil || strings.HasPrefix(obj.Pkg().Path(), "github.com/tigerwill90/fox") {
			if n, ok := t.(*types.Named); ok && n.TypeArgs() != nil && n.TypeArgs().Len() > 0 {
				return sanitize(types.TypeString(t, func(p *types.Package) string { return p.Name() }))
			}
			return obj.Name()
		}
		return sanitize(types.TypeString(t, nil))
	}
	return "anon" + sanitize(typeKey(t))
}

// sortOf maps a Go type to an SMT sort.
func (s *Sorts) sortOf(t types.Type) string {
	if t == nil {
		return "Int"
	}
	switch u := t.Underlying().(type) {
	case *types.Basic:
		switch {
		case u.Info()&types.IsBoolean != 0:
			return "Bool"
		case u.Info()&types.IsString != 0:
			return "Str"
		case u.Info()&types.IsFloat != 0:
			return "Real"
		}
		return "Int"
	case *types.Slice:
		return "Slice"
	case *types.Struct:
		name := "S_" + sanitize(structName(t))
		if !s.declared[name] {
			s.declared[name] = true
			s.structs[name] = u
			var fs []string
			for i := 0; i < u.NumFields(); i++ {
				f := u.Field(i)
				fs = append(fs, fmt.Sprintf("(%s Int %s)", fieldAcc(name, f.Name(), i), s.sortOf(f.Type())))
			}
			_ = fs
			var b strings.Builder
			fmt.Fprintf(&b, "(declare-datatypes ((%s 0)) (((mk_%s", name, name)
			for i := 0; i < u.NumFields(); i++ {
				f := u.Field(i)
				fmt.Fprintf(&b, " (%s %s)", fieldAcc(name, f.Name(), i), s.sortOf(f.Type()))
			}
			b.WriteString("))))\n")
			s.decls.WriteString(b.String())
		}
		return name
	case *types.Array:
		return "(Array Int " + s.sortOf(u.Elem()) + ")"
	case *types.Map:
		if isGhostMap(t) {
			return "(Array Int " + s.sortOf(u.Elem()) + ")"
		}
		return "Int"
	case *types.Tuple:
		return "Tuple"
	}
	// pointers, interfaces, funcs, maps, chans: opaque references
	return "Int"
}

func fieldAcc(sname, fname string, i int) string {
	if fname == "_" {
		fname = fmt.Sprintf("blank%d", i)
	}
	return "f_" + sname + "_" + sanitize(fname)
}

// zeroValue returns the SMT zero value for a Go type.
func (s *Sorts) zeroValue(t types.Type) string {
	switch u := t.Underlying().(type) {
	case *types.Basic:
		switch {
		case u.Info()&types.IsBoolean != 0:
			return "false"
		case u.Info()&types.IsString != 0:
			return emptyStr
		case u.Info()&types.IsFloat != 0:
			return "0.0"
		}
		return "0"
	case *types.Slice:
		return "(mk_slice 0 0 0 0)"
	case *types.Struct:
		name := s.sortOf(t)
		if u.NumFields() == 0 {
			return "mk_" + name
		}
		var b strings.Builder
		b.WriteString("(mk_" + name)
		for i := 0; i < u.NumFields(); i++ {
			b.WriteString(" " + s.zeroValue(u.Field(i).Type()))
		}
		b.WriteString(")")
		return b.String()
	case *types.Array:
		return "((as const " + s.sortOf(t) + ") " + s.zeroValue(u.Elem()) + ")"
	}
	return "0"
}

// isGhostMap: spec-only total maps keyed by references, written [ref]T in contracts.
func isGhostMap(t types.Type) bool {
	m, ok := t.Underlying().(*types.Map)
	if !ok {
		return false
	}
	b, ok := m.Key().(*types.Basic)
	return ok && b.Kind() == types.UnsafePointer
}

const emptyStr = "(mk_str ((as const (Array Int Int)) 0) 0 0)"

func strLit(v string) string {
	arr := "((as const (Array Int Int)) 0)"
	for i := 0; i < len(v); i++ {
		arr = fmt.Sprintf("(store %s %d %d)", arr, i, v[i])
	}
	return fmt.Sprintf("(mk_str %s 0 %d)", arr, len(v))
}

func sortedKeys[V any](m map[string]V) []string {
	var ks []string
	for k := range m {
		ks = append(ks, k)
	}
	sort.Strings(ks)
	return ks
}
