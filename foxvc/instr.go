package main

// Translation of individual go/ssa instructions.

import (
	"fmt"
	"go/constant"
	"go/token"
	"go/types"
	"sort"
	"strconv"
	"strings"

	"golang.org/x/tools/go/ssa"
)

func (v *FnVC) instr(ins ssa.Instruction) {
	switch x := ins.(type) {
	case *ssa.Phi:
		// handled at block entry
	case *ssa.DebugRef:
	case *ssa.Alloc:
		v.alloc(x)
	case *ssa.Store:
		p := v.placeOf(x.Addr)
		if p.Kind == "global" && v.fn.Name() != "init" {
			v.unsupported("store to package-level variable " + p.Key)
		}
		v.checkPlace(p, x.Pos())
		v.ghostAtStore(x, p)
		v.store(p, v.val(x.Val).S, x.Pos())
	case *ssa.UnOp:
		v.unop(x)
	case *ssa.BinOp:
		v.binop(x)
	case *ssa.Index:
		v.index(x)
	case *ssa.IndexAddr:
		v.indexAddr(x)
	case *ssa.Field:
		st := x.X.Type().Underlying().(*types.Struct)
		v.setVal(x, fmt.Sprintf("(%s %s)", fieldAcc(v.sortOf(x.X.Type()), st.Field(x.Field).Name(), x.Field), v.val(x.X).S))
	case *ssa.FieldAddr:
		v.fieldAddr(x)
	case *ssa.Slice:
		v.slice(x)
	case *ssa.MakeSlice:
		v.makeSlice(x)
	case *ssa.Convert:
		v.convert(x)
	case *ssa.ChangeType:
		v.vals[x] = Term{v.val(x.X).S, x.Type()}
	case *ssa.ChangeInterface:
		v.vals[x] = Term{v.val(x.X).S, x.Type()}
	case *ssa.MakeInterface:
		v.makeInterface(x)
	case *ssa.TypeAssert:
		v.typeAssert(x)
	case *ssa.Extract:
		tup := v.tuples[x.Tuple]
		if x.Index < len(tup) {
			v.vals[x] = tup[x.Index]
		} else {
			v.freshVal(x)
		}
	case *ssa.Call:
		v.call(x)
	case *ssa.MakeClosure:
		v.makeClosure(x)
	case *ssa.MakeMap:
		r := v.allocRef("map")
		v.vals[x] = Term{r, x.Type()}
		v.initMap(x.Type(), r)
	case *ssa.MapUpdate:
		v.mapUpdate(x)
	case *ssa.Lookup:
		v.lookup(x)
	case *ssa.Range:
		v.unsupported("range over map/string")
		v.freshVal(x)
	case *ssa.Next:
		v.unsupported("next")
		v.tuples[x] = nil
	case *ssa.If:
		c := v.val(x.Cond).S
		b := x.Block()
		v.edge(b, 0, c)
		v.edge(b, 1, not(c))
	case *ssa.Jump:
		v.edge(x.Block(), 0, "true")
	case *ssa.Return:
		v.ret(x)
	case *ssa.Panic:
		v.panicInstr(x)
	case *ssa.RunDefers:
		v.runDefers(x)
	case *ssa.Defer:
		v.deferred = append(v.deferred, x)
		v.deferInstr(x)
	case *ssa.Go:
		v.unsupported("go statement")
	case *ssa.Send, *ssa.Select, *ssa.MakeChan:
		v.unsupported("channel operation")
		if val, ok := ins.(ssa.Value); ok {
			v.freshVal(val)
		}
	case *ssa.SliceToArrayPointer, *ssa.MultiConvert:
		v.unsupported(fmt.Sprintf("%T", ins))
		v.freshVal(ins.(ssa.Value))
	default:
		v.unsupported(fmt.Sprintf("%T", ins))
		if val, ok := ins.(ssa.Value); ok {
			v.freshVal(val)
		}
	}
}

func (v *FnVC) edge(b *ssa.BasicBlock, si int, cond string) {
	bi := v.blocks[b]
	e := v.define("edge.b"+strconv.Itoa(b.Index)+"."+strconv.Itoa(si), "Bool", and(bi.point, cond))
	bi.edgeOut[si] = e
	to := b.Succs[si]
	if v.isBackEdge(b, to) {
		v.backEdge(b, to, cond)
	}
}

func (v *FnVC) alloc(x *ssa.Alloc) {
	et := x.Type().(*types.Pointer).Elem()
	if !x.Heap || privateCell(x) {
		key := "L:" + x.Name()
		v.localSorts[key] = v.sortOf(et)
		v.localTypes[key] = et
		v.localNames[key] = x.Comment
		v.places[x] = &Place{Kind: "local", Key: key, Typ: et}
		v.set(key, v.sortOf(et), v.w.sorts.zeroValue(et))
		return
	}
	r := v.allocRef(x.Name())
	v.vals[x] = Term{r, x.Type()}
	switch u := et.Underlying().(type) {
	case *types.Struct:
		for i := 0; i < u.NumFields(); i++ {
			v.storeRef(r, u, structName(et), i, v.w.sorts.zeroValue(u.Field(i).Type()))
		}
	case *types.Array:
		key := v.elemKey(u.Elem())
		v.set(key, v.heapSort(key), fmt.Sprintf("(store %s %s %s)", v.get(key), r, v.w.sorts.zeroValue(et)))
	default:
		key := v.cellKey(et)
		v.set(key, v.heapSort(key), fmt.Sprintf("(store %s %s %s)", v.get(key), r, v.w.sorts.zeroValue(et)))
	}
}

// privateCell: a variable that go/ssa heap-allocates only because closures capture it;
// its address never escapes otherwise and no closure writes it, so no call can change it.
func privateCell(x *ssa.Alloc) bool {
	if _, ok := x.Type().(*types.Pointer).Elem().Underlying().(*types.Array); ok {
		return false
	}
	if x.Comment == "" || x.Comment == "complit" || x.Comment == "makeslice" || x.Comment == "varargs" || x.Comment == "new" {
		return false
	}
	captured := false
	for _, r := range *x.Referrers() {
		switch y := r.(type) {
		case *ssa.Store:
			if y.Addr != ssa.Value(x) {
				return false
			}
		case *ssa.UnOp, *ssa.DebugRef:
		case *ssa.MakeClosure:
			captured = true
			cf, _ := y.Fn.(*ssa.Function)
			for k, b := range y.Bindings {
				if b == ssa.Value(x) && cf != nil && k < len(cf.FreeVars) && storesThrough(cf, cf.FreeVars[k]) {
					return false
				}
			}
		default:
			return false
		}
	}
	return captured
}

func (v *FnVC) checkPlace(p *Place, pos token.Pos) {
	switch p.Kind {
	case "field", "cell", "arrelem":
		v.nonNil(p.Base, p.Kind, pos)
	}
}

func (v *FnVC) unop(x *ssa.UnOp) {
	switch x.Op {
	case token.MUL: // load
		p := v.placeOf(x.X)
		v.checkPlace(p, x.Pos())
		t := v.load(p, x.Pos())
		v.setVal(x, t)
		if p.Kind != "local" {
			v.assume(v.rangeOf(v.vals[x].S, x.Type()))
			v.assume(v.allocated(v.vals[x]))
		}
	case token.NOT:
		v.setVal(x, not(v.val(x.X).S))
	case token.SUB:
		v.setVal(x, fmt.Sprintf("(- %s)", v.val(x.X).S))
	case token.XOR:
		v.setVal(x, fmt.Sprintf("(bxor %s (- 1))", v.val(x.X).S))
	case token.ARROW:
		v.unsupported("channel receive")
		v.freshVal(x)
	default:
		v.unsupported("unop " + x.Op.String())
		v.freshVal(x)
	}
}

func isString(t types.Type) bool {
	b, ok := t.Underlying().(*types.Basic)
	return ok && b.Info()&types.IsString != 0
}

func isUnsigned(t types.Type) bool {
	b, ok := t.Underlying().(*types.Basic)
	return ok && b.Info()&types.IsUnsigned != 0
}

func isInteger(t types.Type) bool {
	b, ok := t.Underlying().(*types.Basic)
	return ok && b.Info()&types.IsInteger != 0
}

func modulus(t types.Type) string {
	b, ok := t.Underlying().(*types.Basic)
	if !ok {
		return ""
	}
	switch b.Kind() {
	case types.Uint8:
		return "256"
	case types.Uint16:
		return "65536"
	case types.Uint32:
		return "4294967296"
	case types.Uint, types.Uint64, types.Uintptr:
		return "18446744073709551616"
	}
	return ""
}

// strEq builds equality of two string terms; literal on one side expands to characters.
func strEqTerm(a, b string) string {
	if lit, ok := parseStrLit(b); ok {
		return strEqLit(a, lit)
	}
	if lit, ok := parseStrLit(a); ok {
		return strEqLit(b, lit)
	}
	return fmt.Sprintf("(streq %s %s)", a, b)
}

func strEqLit(a string, lit []int) string {
	parts := []string{fmt.Sprintf("(= (s_len %s) %d)", a, len(lit))}
	for i, c := range lit {
		parts = append(parts, fmt.Sprintf("(= (str_at %s %d) %d)", a, i, c))
	}
	return and(parts...)
}

// parseStrLit recognises terms produced by strLit.
func parseStrLit(s string) ([]int, bool) {
	if s == emptyStr {
		return nil, true
	}
	if !strings.HasPrefix(s, "(mk_str (store ") || !strings.Contains(s, "((as const (Array Int Int)) 0)") {
		return nil, false
	}
	// (mk_str (store (store K 0 c0) 1 c1) 0 n)
	k := strings.Index(s, "((as const (Array Int Int)) 0)")
	rest := s[k+len("((as const (Array Int Int)) 0)"):]
	var out []int
	for strings.HasPrefix(rest, " ") {
		e := strings.Index(rest, ")")
		if e < 0 {
			return nil, false
		}
		f := strings.Fields(rest[:e])
		if len(f) != 2 {
			break
		}
		c, err := strconv.Atoi(f[1])
		if err != nil {
			return nil, false
		}
		out = append(out, c)
		rest = rest[e+1:]
	}
	f := strings.Fields(strings.TrimSuffix(strings.TrimSpace(rest), ")"))
	if len(f) != 2 || f[0] != "0" {
		return nil, false
	}
	n, err := strconv.Atoi(f[1])
	if err != nil || n != len(out) {
		return nil, false
	}
	return out, true
}

func (v *FnVC) binop(x *ssa.BinOp) {
	a, b := v.val(x.X), v.val(x.Y)
	t := x.X.Type()
	var s string
	switch x.Op {
	case token.ADD:
		if isString(t) {
			v.vals[x] = Term{v.concat(a.S, b.S), x.Type()}
			return
		}
		s = fmt.Sprintf("(+ %s %s)", a.S, b.S)
		if m := modulus(x.Type()); m != "" {
			// operands are in [0, m): wrap-around without mod (linear)
			s = fmt.Sprintf("(ite (< %s %s) %s (- %s %s))", s, m, s, s, m)
		}
	case token.SUB:
		s = fmt.Sprintf("(- %s %s)", a.S, b.S)
		if m := modulus(x.Type()); m != "" {
			s = fmt.Sprintf("(ite (>= %s 0) %s (+ %s %s))", s, s, s, m)
		}
	case token.MUL:
		s = fmt.Sprintf("(* %s %s)", a.S, b.S)
		if m := modulus(x.Type()); m != "" {
			s = fmt.Sprintf("(mod %s %s)", s, m)
		}
	case token.QUO:
		v.safety("div-by-zero", fmt.Sprintf("(not (= %s 0))", b.S), x.Pos())
		// Go truncates toward zero
		s = fmt.Sprintf("(ite (>= %s 0) (div %s %s) (- (div (- %s) %s)))", a.S, a.S, b.S, a.S, b.S)
		if !isInteger(t) {
			s = fmt.Sprintf("(/ %s %s)", a.S, b.S)
		}
	case token.REM:
		v.safety("div-by-zero", fmt.Sprintf("(not (= %s 0))", b.S), x.Pos())
		s = fmt.Sprintf("(ite (>= %s 0) (mod %s %s) (- (mod (- %s) %s)))", a.S, a.S, b.S, a.S, b.S)
	case token.AND:
		s = fmt.Sprintf("(band %s %s)", a.S, b.S)
	case token.OR:
		s = fmt.Sprintf("(bor %s %s)", a.S, b.S)
	case token.XOR:
		s = fmt.Sprintf("(bxor %s %s)", a.S, b.S)
	case token.SHL:
		if c, ok := x.Y.(*ssa.Const); ok && c.Value != nil {
			if n, ok2 := constant.Int64Val(c.Value); ok2 && n >= 0 && n < 62 {
				s = fmt.Sprintf("(* %s %d)", a.S, int64(1)<<uint(n))
				if m := modulus(x.Type()); m != "" {
					s = fmt.Sprintf("(mod %s %s)", s, m)
				}
				break
			}
		}
		s = fmt.Sprintf("(bshl %s %s)", a.S, b.S)
	case token.SHR:
		if c, ok := x.Y.(*ssa.Const); ok && c.Value != nil {
			if n, ok2 := constant.Int64Val(c.Value); ok2 && n >= 0 && n < 62 {
				// arithmetic shift = floor division by a power of two
				s = fmt.Sprintf("(div %s %d)", a.S, int64(1)<<uint(n))
				break
			}
		}
		s = fmt.Sprintf("(bshr %s %s)", a.S, b.S)
	case token.AND_NOT:
		s = fmt.Sprintf("(band %s (bxor %s (- 1)))", a.S, b.S)
	case token.EQL, token.NEQ:
		s = v.equal(a, b)
		if x.Op == token.NEQ {
			s = not(s)
		}
	case token.LSS:
		s = v.cmp("<", a, b)
	case token.LEQ:
		s = v.cmp("<=", a, b)
	case token.GTR:
		s = v.cmp(">", a, b)
	case token.GEQ:
		s = v.cmp(">=", a, b)
	default:
		v.unsupported("binop " + x.Op.String())
		v.freshVal(x)
		return
	}
	v.setVal(x, s)
}

func (v *FnVC) cmp(op string, a, b Term) string {
	if isString(a.T) {
		v.unsupported("string ordering comparison")
		n := v.fresh("strcmp")
		v.declare(n, "Bool")
		return n
	}
	return fmt.Sprintf("(%s %s %s)", op, a.S, b.S)
}

func (v *FnVC) equal(a, b Term) string {
	t := a.T
	if t == nil {
		t = b.T
	}
	if isString(t) {
		return strEqTerm(a.S, b.S)
	}
	switch t.Underlying().(type) {
	case *types.Slice:
		// only comparison with nil is legal
		if a.S == "(mk_slice 0 0 0 0)" {
			return fmt.Sprintf("(= (sl_ref %s) 0)", b.S)
		}
		return fmt.Sprintf("(= (sl_ref %s) 0)", a.S)
	case *types.Struct:
		// field-wise; strings inside structs compared structurally (sound only if same base) – approximate by datatype equality
		return fmt.Sprintf("(= %s %s)", a.S, b.S)
	}
	return fmt.Sprintf("(= %s %s)", a.S, b.S)
}

// concat of two strings: fresh string with defining axioms (index-normal form).
func (v *FnVC) concat(a, b string) string {
	if la, ok := parseStrLit(a); ok {
		if lb, ok := parseStrLit(b); ok {
			bs := make([]byte, 0, len(la)+len(lb))
			for _, c := range la {
				bs = append(bs, byte(c))
			}
			for _, c := range lb {
				bs = append(bs, byte(c))
			}
			return strLit(string(bs))
		}
	}
	r := v.fresh("concat")
	v.declare(r, "Str")
	v.assume(fmt.Sprintf("(and (= (s_off %s) 0) (= (s_len %s) (+ (s_len %s) (s_len %s))))", r, r, a, b))
	v.assume(fmt.Sprintf("(forall ((i Int)) (! (=> (and (<= 0 i) (< i (s_len %s))) (= (str_at %s i) (str_at %s i))) :pattern ((str_at %s i))))", a, r, a, r))
	v.assume(fmt.Sprintf("(forall ((i Int)) (! (=> (and (<= (s_len %s) i) (< i (s_len %s))) (= (str_at %s i) (str_at %s (- i (s_len %s))))) :pattern ((str_at %s i))))", a, r, r, b, a, r))
	return r
}

func (v *FnVC) index(x *ssa.Index) {
	a, i := v.val(x.X), v.val(x.Index)
	switch u := x.X.Type().Underlying().(type) {
	case *types.Basic: // string
		v.safety("index", fmt.Sprintf("(and (<= 0 %s) (< %s (s_len %s)))", i.S, i.S, a.S), x.Pos())
		v.setVal(x, fmt.Sprintf("(str_at %s %s)", a.S, i.S))
		v.assume(v.rangeOf(v.vals[x].S, x.Type()))
	case *types.Array:
		v.safety("index", fmt.Sprintf("(and (<= 0 %s) (< %s %d))", i.S, i.S, u.Len()), x.Pos())
		v.setVal(x, fmt.Sprintf("(select %s %s)", a.S, i.S))
	default:
		v.unsupported("index of " + x.X.Type().String())
		v.freshVal(x)
	}
}

func (v *FnVC) indexAddr(x *ssa.IndexAddr) {
	i := v.val(x.Index)
	switch u := x.X.Type().Underlying().(type) {
	case *types.Slice:
		s := v.val(x.X)
		v.safety("index", fmt.Sprintf("(and (<= 0 %s) (< %s (sl_len %s)))", i.S, i.S, s.S), x.Pos())
		v.places[x] = &Place{Kind: "elem", Base: s, Idx: i.S, Typ: u.Elem()}
	case *types.Pointer:
		at := u.Elem().Underlying().(*types.Array)
		v.safety("index", fmt.Sprintf("(and (<= 0 %s) (< %s %d))", i.S, i.S, at.Len()), x.Pos())
		if p, ok := v.places[x.X]; ok && p.Kind == "local" {
			np := *p
			np.Idx = i.S
			np.Typ = at.Elem()
			v.places[x] = &np
			return
		}
		v.places[x] = &Place{Kind: "arrelem", Base: v.val(x.X), Idx: i.S, Typ: at.Elem()}
	default:
		v.unsupported("indexaddr of " + x.X.Type().String())
		v.places[x] = &Place{Kind: "cell", Base: Term{"0", x.Type()}, Typ: types.Typ[types.Int]}
	}
}

func (v *FnVC) fieldAddr(x *ssa.FieldAddr) {
	st, sname, ok := derefStruct(x.X.Type())
	if !ok {
		v.unsupported("fieldaddr on " + x.X.Type().String())
		return
	}
	ft := st.Field(x.Field).Type()
	if p, ok := v.places[x.X]; ok && p.Kind == "local" && p.Idx == "" {
		np := &Place{Kind: "local", Key: p.Key, Typ: ft}
		np.Path = append(append([]int{}, p.Path...), x.Field)
		np.PathT = append(append([]types.Type{}, p.PathT...), p.Typ)
		v.places[x] = np
		return
	}
	if p, ok := v.places[x.X]; ok && (p.Kind == "elem" || p.Kind == "arrelem") {
		// field of a struct stored by value in a slice/array element
		np := *p
		np.Path = append(append([]int{}, p.Path...), x.Field)
		np.PathT = append(append([]types.Type{}, p.PathT...), p.Typ)
		np.Typ = ft
		v.places[x] = &np
		return
	}
	base := v.val(x.X)
	if p, ok := v.places[x.X]; ok && p.Kind != "cell" {
		v.unsupported("fieldaddr through " + p.Kind + " place")
	}
	v.places[x] = &Place{Kind: "field", Base: base, ST: st, SName: sname, Field: x.Field, Typ: ft}
	if _, isStruct := ft.Underlying().(*types.Struct); isStruct {
		// address of an embedded struct: a real (derived) reference
		v.vals[x] = Term{v.subRef(base.S, sname, st, x.Field), x.Type()}
		delete(v.places, x)
		v.nonNil(base, "field", x.Pos())
	}
}

func (v *FnVC) slice(x *ssa.Slice) {
	var lo, hi, max string
	if x.Low != nil {
		lo = v.val(x.Low).S
	} else {
		lo = "0"
	}
	switch u := x.X.Type().Underlying().(type) {
	case *types.Basic: // string
		s := v.val(x.X)
		if x.High != nil {
			hi = v.val(x.High).S
		} else {
			hi = fmt.Sprintf("(s_len %s)", s.S)
		}
		v.safety("slice-bounds", fmt.Sprintf("(and (<= 0 %s) (<= %s %s) (<= %s (s_len %s)))", lo, lo, hi, hi, s.S), x.Pos())
		q := v.freshVal(x)
		v.assume(fmt.Sprintf("(= %s (mk_str (s_base %s) (+ (s_off %s) %s) (- %s %s)))", q, s.S, s.S, lo, hi, lo))
		v.assume(fmt.Sprintf("(forall ((i Int)) (! (= (str_at %s i) (str_at %s (+ %s i))) :pattern ((str_at %s i))))", q, s.S, lo, q))
	case *types.Slice:
		s := v.val(x.X)
		if x.High != nil {
			hi = v.val(x.High).S
		} else {
			hi = fmt.Sprintf("(sl_len %s)", s.S)
		}
		if x.Max != nil {
			max = v.val(x.Max).S
		} else {
			max = fmt.Sprintf("(sl_cap %s)", s.S)
		}
		v.safety("slice-bounds", fmt.Sprintf("(and (<= 0 %s) (<= %s %s) (<= %s %s) (<= %s (sl_cap %s)))", lo, lo, hi, hi, max, max, s.S), x.Pos())
		q := v.freshVal(x)
		v.assume(fmt.Sprintf("(= %s (mk_slice (sl_ref %s) (+ (sl_off %s) %s) (- %s %s) (- %s %s)))", q, s.S, s.S, lo, hi, lo, max, lo))
		v.assume(fmt.Sprintf("(forall ((i Int)) (! (= (idx %s i) (idx %s (+ %s i))) :pattern ((idx %s i))))", q, s.S, lo, q))
	case *types.Pointer: // *array
		at := u.Elem().Underlying().(*types.Array)
		n := strconv.FormatInt(at.Len(), 10)
		if x.High != nil {
			hi = v.val(x.High).S
		} else {
			hi = n
		}
		if x.Max != nil {
			max = v.val(x.Max).S
		} else {
			max = n
		}
		ref := v.val(x.X)
		if p, ok := v.places[x.X]; ok && p.Kind == "local" {
			// slicing a local array: spill it to the heap
			v.unsupported("slice of local array")
		}
		v.safety("slice-bounds", fmt.Sprintf("(and (<= 0 %s) (<= %s %s) (<= %s %s) (<= %s %s))", lo, lo, hi, hi, max, max, n), x.Pos())
		v.setVal(x, fmt.Sprintf("(mk_slice %s %s (- %s %s) (- %s %s))", ref.S, lo, hi, lo, max, lo))
	default:
		v.unsupported("slice of " + x.X.Type().String())
		v.freshVal(x)
	}
}

func (v *FnVC) makeSlice(x *ssa.MakeSlice) {
	l, c := v.val(x.Len).S, v.val(x.Cap).S
	v.safety("makeslice", fmt.Sprintf("(and (<= 0 %s) (<= %s %s))", l, l, c), x.Pos())
	et := x.Type().Underlying().(*types.Slice).Elem()
	r := v.allocRef(x.Name())
	key := v.elemKey(et)
	v.set(key, v.heapSort(key), fmt.Sprintf("(store %s %s ((as const (Array Int %s)) %s))", v.get(key), r, v.sortOf(et), v.w.sorts.zeroValue(et)))
	v.setVal(x, fmt.Sprintf("(mk_slice %s 0 %s %s)", r, l, c))
}

func (v *FnVC) convert(x *ssa.Convert) {
	from, to := x.X.Type().Underlying(), x.Type().Underlying()
	a := v.val(x.X)
	fb, fok := from.(*types.Basic)
	tb, tok := to.(*types.Basic)
	switch {
	case fok && tok && fb.Info()&types.IsInteger != 0 && tb.Info()&types.IsInteger != 0:
		// integer conversion: exact when in range (checked as a safety obligation when narrowing)
		lo, hi := intRange(tb)
		flo, fhi := intRange(fb)
		if lo != "" && !(rangeWithin(flo, fhi, lo, hi)) {
			v.safety("conversion-range", fmt.Sprintf("(and (<= %s %s) (<= %s %s))", lo, a.S, a.S, hi), x.Pos())
		}
		v.vals[x] = Term{a.S, x.Type()}
	case fok && tok && fb.Info()&types.IsString != 0 && tb.Info()&types.IsString != 0:
		v.vals[x] = Term{a.S, x.Type()}
	case tok && tb.Info()&types.IsString != 0:
		if sl, ok := from.(*types.Slice); ok {
			// string(bytes)
			r := v.freshVal(x)
			key := v.elemKey(sl.Elem())
			v.assume(fmt.Sprintf("(and (= (s_off %s) 0) (= (s_len %s) (sl_len %s)))", r, r, a.S))
			v.assume(fmt.Sprintf("(forall ((i Int)) (! (=> (and (<= 0 i) (< i (sl_len %s))) (= (str_at %s i) (select (select %s (sl_ref %s)) (idx %s i)))) :pattern ((str_at %s i))))", a.S, r, v.get(key), a.S, a.S, r))
			return
		}
		// string(rune/byte)
		r := v.freshVal(x)
		v.assume(fmt.Sprintf("(=> (and (<= 0 %s) (< %s 128)) (and (= (s_len %s) 1) (= (str_at %s 0) %s)))", a.S, a.S, r, r, a.S))
	case fok && fb.Info()&types.IsString != 0:
		if sl, ok := to.(*types.Slice); ok {
			// []byte(s)
			ref := v.allocRef(x.Name())
			key := v.elemKey(sl.Elem())
			arr := v.fresh("bytes")
			v.declare(arr, "(Array Int Int)")
			v.assume(fmt.Sprintf("(forall ((i Int)) (! (=> (and (<= 0 i) (< i (s_len %s))) (= (select %s i) (str_at %s i))) :pattern ((select %s i))))", a.S, arr, a.S, arr))
			v.set(key, v.heapSort(key), fmt.Sprintf("(store %s %s %s)", v.get(key), ref, arr))
			v.setVal(x, fmt.Sprintf("(mk_slice %s 0 (s_len %s) (s_len %s))", ref, a.S, a.S))
			return
		}
		v.unsupported("conversion from string to " + x.Type().String())
		v.freshVal(x)
	default:
		if v.sortOf(x.X.Type()) == v.sortOf(x.Type()) {
			v.vals[x] = Term{a.S, x.Type()}
			return
		}
		v.unsupported("conversion " + x.X.Type().String() + " -> " + x.Type().String())
		v.freshVal(x)
	}
}

func rangeWithin(flo, fhi, lo, hi string) bool {
	if flo == "" {
		return false
	}
	p := func(s string) float64 {
		s = strings.TrimSuffix(strings.TrimPrefix(s, "(- "), ")")
		f, _ := strconv.ParseFloat(s, 64)
		return f
	}
	neg := func(s string) bool { return strings.HasPrefix(s, "(- ") }
	fl, fh, l, h := p(flo), p(fhi), p(lo), p(hi)
	if neg(flo) {
		fl = -fl
	}
	if neg(lo) {
		l = -l
	}
	return fl >= l && fh <= h
}

// ---------- interfaces

func (v *FnVC) makeInterface(x *ssa.MakeInterface) {
	a := v.val(x.X)
	tag := v.w.typeTag(x.X.Type())
	switch x.X.Type().Underlying().(type) {
	case *types.Pointer, *types.Signature, *types.Map, *types.Chan:
		// boxed reference: injective per dynamic type
		fn := v.w.boxFn(x.X.Type(), "Int")
		v.setVal(x, fmt.Sprintf("(%s %s)", fn, a.S))
	default:
		fn := v.w.boxFn(x.X.Type(), v.sortOf(x.X.Type()))
		v.setVal(x, fmt.Sprintf("(%s %s)", fn, a.S))
	}
	_ = tag
}

func (v *FnVC) typeAssert(x *ssa.TypeAssert) {
	a := v.val(x.X)
	var ok string
	var res string
	if types.IsInterface(x.AssertedType) {
		ok = fmt.Sprintf("(and (not (= %s 0)) (%s (dyntype %s)))", a.S, v.w.implFn(x.AssertedType), a.S)
		res = a.S
	} else {
		tag := v.w.typeTag(x.AssertedType)
		ok = fmt.Sprintf("(and (not (= %s 0)) (= (dyntype %s) %d))", a.S, a.S, tag)
		sort := v.sortOf(x.AssertedType)
		switch x.AssertedType.Underlying().(type) {
		case *types.Pointer, *types.Signature, *types.Map, *types.Chan:
			sort = "Int"
		}
		res = fmt.Sprintf("(%s %s)", v.w.unboxFn(x.AssertedType, sort), a.S)
	}
	if x.CommaOk {
		okn := v.define("ok", "Bool", ok)
		zero := v.w.sorts.zeroValue(x.AssertedType)
		rn := v.define("ta", v.sortOf(x.AssertedType), fmt.Sprintf("(ite %s %s %s)", okn, res, zero))
		v.tuples[x] = []Term{{rn, x.AssertedType}, {okn, types.Typ[types.Bool]}}
		return
	}
	v.safety("type-assert", ok, x.Pos())
	v.setVal(x, res)
}

func (v *FnVC) makeClosure(x *ssa.MakeClosure) {
	fn := x.Fn.(*ssa.Function)
	r := v.allocRef("closure")
	v.vals[x] = Term{r, x.Type()}
	// remember the code pointer and bindings of the closure (uninterpreted accessors)
	v.assume(fmt.Sprintf("(= (closure.code %s) %s)", r, v.w.funcRef(fn)))
	v.w.needClosure = true
	for i, b := range x.Bindings {
		bt := v.val(b)
		acc := v.w.closureBind(fn, i, v.sortOf(b.Type()))
		v.assume(fmt.Sprintf("(= (%s %s) %s)", acc, r, bt.S))
	}
}

// ---------- maps (abstract: Array K V plus a domain array)

func (v *FnVC) mapKeys(t types.Type) (string, string, *types.Map) {
	mt := t.Underlying().(*types.Map)
	kk := "M|" + typeKey(t)
	dk := "MD|" + typeKey(t)
	if _, ok := v.w.heapSorts[kk]; !ok {
		v.w.heapSorts[kk] = fmt.Sprintf("(Array Int (Array %s %s))", v.sortOf(mt.Key()), v.sortOf(mt.Elem()))
		v.w.heapSorts[dk] = fmt.Sprintf("(Array Int (Array %s Bool))", v.sortOf(mt.Key()))
	}
	return kk, dk, mt
}

func (v *FnVC) initMap(t types.Type, r string) {
	kk, dk, mt := v.mapKeys(t)
	v.set(dk, v.heapSort(dk), fmt.Sprintf("(store %s %s ((as const (Array %s Bool)) false))", v.get(dk), r, v.sortOf(mt.Key())))
	_ = kk
}

func (v *FnVC) mapUpdate(x *ssa.MapUpdate) {
	m, k, val := v.val(x.Map), v.val(x.Key), v.val(x.Value)
	kk, dk, _ := v.mapKeys(x.Map.Type())
	v.safety("nil-map-write", fmt.Sprintf("(not (= %s 0))", m.S), x.Pos())
	if types.IsInterface(x.Map.Type().Underlying().(*types.Map).Key()) {
		// storing under an interface-typed key panics when the dynamic value is unhashable
		v.w.declareOnce("spec.hashable", "(declare-fun spec.hashable (Int) Bool)")
		v.safety("map-key-hashable", fmt.Sprintf("(spec.hashable %s)", k.S), x.Pos())
	}
	v.set(kk, v.heapSort(kk), fmt.Sprintf("(store %s %s (store (select %s %s) %s %s))", v.get(kk), m.S, v.get(kk), m.S, k.S, val.S))
	v.set(dk, v.heapSort(dk), fmt.Sprintf("(store %s %s (store (select %s %s) %s true))", v.get(dk), m.S, v.get(dk), m.S, k.S))
}

func (v *FnVC) lookup(x *ssa.Lookup) {
	if _, ok := x.X.Type().Underlying().(*types.Map); !ok {
		// string index via lookup
		a, i := v.val(x.X), v.val(x.Index)
		v.safety("index", fmt.Sprintf("(and (<= 0 %s) (< %s (s_len %s)))", i.S, i.S, a.S), x.Pos())
		v.setVal(x, fmt.Sprintf("(str_at %s %s)", a.S, i.S))
		return
	}
	m, k := v.val(x.X), v.val(x.Index)
	kk, dk, mt := v.mapKeys(x.X.Type())
	in := fmt.Sprintf("(and (not (= %s 0)) (select (select %s %s) %s))", m.S, v.get(dk), m.S, k.S)
	val := fmt.Sprintf("(ite %s (select (select %s %s) %s) %s)", in, v.get(kk), m.S, k.S, v.w.sorts.zeroValue(mt.Elem()))
	if x.CommaOk {
		okn := v.define("ok", "Bool", in)
		vn := v.define("mv", v.sortOf(mt.Elem()), val)
		v.assume(v.rangeOf(vn, mt.Elem()))
		v.tuples[x] = []Term{{vn, mt.Elem()}, {okn, types.Typ[types.Bool]}}
		return
	}
	v.setVal(x, val)
	v.assume(v.rangeOf(v.vals[x].S, mt.Elem()))
}

// ---------- return / panic

func (v *FnVC) ret(x *ssa.Return) {
	v.retCnt++
	var results []Term
	for _, r := range x.Results {
		results = append(results, v.val(r))
	}
	env := v.newEnv(v.st, v.initEnv)
	env.results = results
	env.atReturn = true
	sig := v.fn.Signature
	for i := 0; i < sig.Results().Len() && i < len(results); i++ {
		if n := sig.Results().At(i).Name(); n != "" && n != "_" {
			env.vars[n] = results[i]
		}
	}
	v.ghostSets("return", env)
	env.st = v.st
	site := ""
	if v.fn.Signature.Results().Len() >= 0 {
		site = "@ret" + strconv.Itoa(v.retCnt)
	}
	if !v.dry {
		v.cover("return"+site+"-reachable", "true")
	}
	k := 0
	for _, cl := range v.fc.Clauses {
		if cl.Kind != "ensures" || (cl.Behav != "" && cl.Behav != v.behav) {
			continue
		}
		k++
		for j, c := range v.flatten(cl.E) {
			t := v.specBoolE(c, env, cl)
			v.behavClause = cl.Behav != ""
			v.oblige("ensures", v.clauseLabel(cl, k-1, j)+site, t, cl.Props, true, c.String(), x.Pos())
		}
	}
	if v.fc.NoAlloc {
		props := v.fc.NoAllocProps
		if len(props) == 0 {
			props = v.fc.Props
		}
		v.behavClause = false
		v.ensureNextref()
		v.init("nextref")
		v.oblige("noalloc", strings.TrimPrefix(site, "@"), fmt.Sprintf("(= %s |nextref@0|)", v.get("nextref")), props, true, "the function allocates nothing (allocation pointer unchanged)", x.Pos())
	}
	v.frameCheck(site)
}

// panicOrdinal numbers the explicit panics of the function in source order; compiler-generated ones
// (range-over-func state checks, which have no position of their own in the source) come last.
func (v *FnVC) panicOrdinal(x *ssa.Panic) int {
	var all []*ssa.Panic
	for _, b := range v.fn.Blocks {
		for _, ins := range b.Instrs {
			if p, ok := ins.(*ssa.Panic); ok {
				all = append(all, p)
			}
		}
	}
	synthetic := func(p *ssa.Panic) bool {
		c := p.Block().Comment
		return strings.HasPrefix(c, "rangefunc.") || strings.HasPrefix(c, "yield-")
	}
	sort.SliceStable(all, func(i, j int) bool {
		si, sj := synthetic(all[i]), synthetic(all[j])
		if si != sj {
			return !si
		}
		return all[i].Pos() < all[j].Pos()
	})
	for i, p := range all {
		if p == x {
			return i + 1
		}
	}
	return 0
}

func (v *FnVC) panicInstr(x *ssa.Panic) {
	v.panicCnt = v.panicOrdinal(x)
	// panics-when clauses: the panic is allowed when one of them holds at entry
	var allowed []string
	for _, cl := range v.fc.Clauses {
		if cl.Kind == "panics-when" {
			allowed = append(allowed, v.specBool(cl.E, v.initEnv, cl))
		}
	}
	v.runAnchored("panic#"+strconv.Itoa(v.panicCnt), x.Pos(), map[string]Term{"panic_value": v.val(x.X)})
	v.behavClause = false
	v.oblige("unreachable-panic", strconv.Itoa(v.panicCnt), or(allowed...), nil, !v.fc.Partial, "explicit panic must be unreachable (or allowed by panics-when)", x.Pos())
	// the function's exceptional postconditions hold when it raises the panic itself
	v.panicPath("panic#"+strconv.Itoa(v.panicCnt), x.Pos(), func() {})
}

func (v *FnVC) runDefers(x *ssa.RunDefers) {
	// deferred calls are executed here in reverse order (only unconditional defers are supported)
	for i := len(v.deferred) - 1; i >= 0; i-- {
		d := v.deferred[i]
		if !d.Block().Dominates(x.Block()) {
			v.unsupported("conditional defer")
			continue
		}
		v.callCommon(&d.Call, nil, d.Pos(), "defer")
	}
}

func (v *FnVC) deferInstr(x *ssa.Defer) {}
