package main

// Audit of CIDR tables by bit-vector queries over all 2^32 + 2^128 addresses.

import (
	"fmt"
	"go/ast"
	"go/token"
	"math/big"
	"net"
	"strconv"
	"strings"

	"golang.org/x/tools/go/packages"
)

type cidrEntry struct {
	table string
	text  string
	pos   token.Pos
}

// tableLiterals reads the mustParseCIDR("...") literals of the named package-level tables.
func (w *World) tableLiterals(pkgName string, tables []string) ([]cidrEntry, []string) {
	var out []cidrEntry
	var errs []string
	found := map[string]bool{}
	packages.Visit(w.pkgs, nil, func(p *packages.Package) {
		if p.Types == nil || (p.Types.Name() != pkgName && p.Types.Path() != pkgName) {
			return
		}
		for _, f := range p.Syntax {
			for _, d := range f.Decls {
				gd, ok := d.(*ast.GenDecl)
				if !ok || gd.Tok != token.VAR {
					continue
				}
				for _, sp := range gd.Specs {
					vs := sp.(*ast.ValueSpec)
					for i, n := range vs.Names {
						if !contains(tables, n.Name) || i >= len(vs.Values) {
							continue
						}
						found[n.Name] = true
						cl, ok := vs.Values[i].(*ast.CompositeLit)
						if !ok {
							errs = append(errs, n.Name+": initialiser is not a composite literal")
							continue
						}
						for _, e := range cl.Elts {
							call, ok := e.(*ast.CallExpr)
							if !ok || len(call.Args) != 1 {
								errs = append(errs, n.Name+": element is not a mustParseCIDR call")
								continue
							}
							lit, ok := call.Args[0].(*ast.BasicLit)
							if !ok || lit.Kind != token.STRING {
								errs = append(errs, n.Name+": CIDR is not a string literal")
								continue
							}
							s, _ := strconv.Unquote(lit.Value)
							out = append(out, cidrEntry{n.Name, s, lit.Pos()})
						}
					}
				}
			}
		}
	})
	for _, t := range tables {
		if !found[t] {
			errs = append(errs, "table "+t+" not found in package "+pkgName)
		}
	}
	return out, errs
}

func bvLit(ip net.IP, bits int) string {
	if bits == 32 {
		ip = ip.To4()
	} else {
		ip = ip.To16()
	}
	n := new(big.Int).SetBytes(ip)
	return fmt.Sprintf("(_ bv%s %d)", n.String(), bits)
}

func inRangeSMT(v string, n *net.IPNet, bits int) string {
	ones, _ := n.Mask.Size()
	mask := new(big.Int).Lsh(new(big.Int).Sub(new(big.Int).Lsh(big.NewInt(1), uint(ones)), big.NewInt(1)), uint(bits-ones))
	return fmt.Sprintf("(= (bvand %s (_ bv%s %d)) %s)", v, mask.String(), bits, bvLit(n.IP, bits))
}

// cidrObligations: one obligation per table entry.
func (w *World) cidrObligations(a Audit) ([]*Obligation, []string) {
	entries, errs := w.tableLiterals(a.Pkg, a.Tables)
	var v4, v6 []*net.IPNet
	for _, s := range w.cs.NonGlobal {
		_, n, err := net.ParseCIDR(s)
		if err != nil {
			errs = append(errs, "bad nonglobal entry "+s)
			continue
		}
		if n.IP.To4() != nil && !strings.Contains(s, ":") {
			v4 = append(v4, n)
		} else {
			v6 = append(v6, n)
		}
	}
	var obls []*Obligation
	for _, e := range entries {
		_, n, err := net.ParseCIDR(e.text)
		if err != nil {
			errs = append(errs, fmt.Sprintf("%s: %q does not parse", e.table, e.text))
			continue
		}
		bits := 128
		ref := v6
		if n.IP.To4() != nil && !strings.Contains(e.text, ":") {
			bits, ref = 32, v4
		}
		var b strings.Builder
		b.WriteString("(set-option :produce-models true)\n(set-logic QF_BV)\n")
		fmt.Fprintf(&b, "(declare-const ip (_ BitVec %d))\n", bits)
		fmt.Fprintf(&b, "(assert %s)\n", inRangeSMT("ip", n, bits))
		for _, r := range ref {
			fmt.Fprintf(&b, "(assert (not %s))\n", inRangeSMT("ip", r, bits))
		}
		b.WriteString("(check-sat)\n(get-value (ip))\n")
		q := b.String()
		o := &Obligation{
			Name: fmt.Sprintf("%s.tables/nonglobal[%s:%s]", a.Pkg, e.table, e.text), Kind: "audit", Props: a.Props, Func: a.Pkg + ".tables",
			Claimed: true, Text: fmt.Sprintf("every address of %s (table %s) is listed as not globally reachable", e.text, e.table),
			Pos: w.fset.Position(e.pos), RawQuery: q, RawBits: bits,
		}
		obls = append(obls, o)
	}
	return obls, errs
}

// bvModelIP renders the solver's witness address.
func bvModelIP(out string, bits int) string {
	k := strings.Index(out, "#x")
	if k < 0 {
		return ""
	}
	hex := out[k+2:]
	e := strings.IndexAny(hex, ") \n")
	if e > 0 {
		hex = hex[:e]
	}
	n, ok := new(big.Int).SetString(hex, 16)
	if !ok {
		return ""
	}
	bs := n.FillBytes(make([]byte, bits/8))
	return net.IP(bs).String()
}
