package main

// Contract expression language: lexer, AST and parser.
//
// Grammar (lowest to highest precedence):
//   e ::= forall x T [, y T] :: e | exists ... :: e
//       | e <==> e | e ==> e (right assoc) | e ? e : e
//       | e || e | e && e | e (==|!=|<|<=|>|>=) e
//       | e (+|-||) e | e (*|/|%|&) e | (!|-|*) e
//       | e[i] | e[a:b] | e.f | f(args) | (e) | lit | ident

import (
	"fmt"
	"strconv"
	"strings"
	"unicode"
)

type Expr interface{ String() string }

type (
	Ident   struct{ Name string }
	IntLit  struct{ V int64 }
	StrLit  struct{ S string }
	BoolLit struct{ V bool }
	Unary   struct {
		Op string
		X  Expr
	}
	Binary struct {
		Op   string
		X, Y Expr
	}
	IndexE struct{ X, I Expr }
	SliceE struct{ X, Lo, Hi Expr }
	SelE   struct {
		X    Expr
		Name string
	}
	CallE struct {
		Fun  string
		Args []Expr
	}
	QVar struct {
		Name string
		Type string
	}
	Quant struct {
		Forall   bool
		Vars     []QVar
		Body     Expr
		Triggers [][]Expr
	}
	CondE struct{ C, A, B Expr }
)

func (e *Ident) String() string   { return e.Name }
func (e *IntLit) String() string  { return strconv.FormatInt(e.V, 10) }
func (e *StrLit) String() string  { return strconv.Quote(e.S) }
func (e *BoolLit) String() string { return strconv.FormatBool(e.V) }
func (e *Unary) String() string   { return e.Op + e.X.String() }
func (e *Binary) String() string  { return "(" + e.X.String() + " " + e.Op + " " + e.Y.String() + ")" }
func (e *IndexE) String() string  { return e.X.String() + "[" + e.I.String() + "]" }
func (e *SliceE) String() string {
	lo, hi := "", ""
	if e.Lo != nil {
		lo = e.Lo.String()
	}
	if e.Hi != nil {
		hi = e.Hi.String()
	}
	return e.X.String() + "[" + lo + ":" + hi + "]"
}
func (e *SelE) String() string { return e.X.String() + "." + e.Name }
func (e *CallE) String() string {
	var a []string
	for _, x := range e.Args {
		a = append(a, x.String())
	}
	return e.Fun + "(" + strings.Join(a, ", ") + ")"
}
func (e *Quant) String() string {
	q := "exists"
	if e.Forall {
		q = "forall"
	}
	var v []string
	for _, x := range e.Vars {
		v = append(v, x.Name+" "+x.Type)
	}
	return "(" + q + " " + strings.Join(v, ", ") + " :: " + e.Body.String() + ")"
}
func (e *CondE) String() string {
	return "(" + e.C.String() + " ? " + e.A.String() + " : " + e.B.String() + ")"
}

type tok struct {
	kind string // id, int, str, op, eof
	s    string
	v    int64
}

func lex(src string) ([]tok, error) {
	var out []tok
	i := 0
	ops := []string{"<==>", "==>", "::", "==", "!=", "<=", ">=", "&&", "||", "<", ">", "+", "-", "*", "/", "%", "&", "|", "!", "(", ")", "[", "]", ".", ",", ":", "?", "{", "}", "$", "#"}
	for i < len(src) {
		c := src[i]
		switch {
		case c == ' ' || c == '\t' || c == '\n' || c == '\r':
			i++
		case unicode.IsLetter(rune(c)) || c == '_':
			j := i
			for j < len(src) && (unicode.IsLetter(rune(src[j])) || unicode.IsDigit(rune(src[j])) || src[j] == '_' || src[j] == '$' || (src[j] == '#' && j+1 < len(src) && unicode.IsDigit(rune(src[j+1])))) {
				j++
			}
			out = append(out, tok{kind: "id", s: src[i:j]})
			i = j
		case c >= '0' && c <= '9':
			j := i
			for j < len(src) && (src[j] >= '0' && src[j] <= '9' || src[j] == 'x' || (src[j] >= 'a' && src[j] <= 'f') || (src[j] >= 'A' && src[j] <= 'F')) {
				j++
			}
			v, err := strconv.ParseInt(src[i:j], 0, 64)
			if err != nil {
				return nil, fmt.Errorf("bad int %q", src[i:j])
			}
			out = append(out, tok{kind: "int", v: v, s: src[i:j]})
			i = j
		case c == '\'':
			j := i + 1
			for j < len(src) && src[j] != '\'' {
				if src[j] == '\\' {
					j++
				}
				j++
			}
			if j >= len(src) {
				return nil, fmt.Errorf("unterminated char literal")
			}
			r, _, _, err := strconv.UnquoteChar(src[i+1:j], '\'')
			if err != nil {
				return nil, fmt.Errorf("bad char literal %q", src[i:j+1])
			}
			out = append(out, tok{kind: "int", v: int64(r), s: src[i : j+1]})
			i = j + 1
		case c == '"':
			j := i + 1
			for j < len(src) && src[j] != '"' {
				if src[j] == '\\' {
					j++
				}
				j++
			}
			if j >= len(src) {
				return nil, fmt.Errorf("unterminated string literal")
			}
			s, err := strconv.Unquote(src[i : j+1])
			if err != nil {
				return nil, fmt.Errorf("bad string literal %q", src[i:j+1])
			}
			out = append(out, tok{kind: "str", s: s})
			i = j + 1
		default:
			matched := false
			for _, op := range ops {
				if strings.HasPrefix(src[i:], op) {
					out = append(out, tok{kind: "op", s: op})
					i += len(op)
					matched = true
					break
				}
			}
			if !matched {
				return nil, fmt.Errorf("unexpected character %q in %q", c, src)
			}
		}
	}
	out = append(out, tok{kind: "eof"})
	return out, nil
}

type parser struct {
	toks []tok
	pos  int
	src  string
}

func ParseExpr(src string) (e Expr, err error) {
	toks, err := lex(src)
	if err != nil {
		return nil, err
	}
	p := &parser{toks: toks, src: src}
	defer func() {
		if r := recover(); r != nil {
			err = fmt.Errorf("parse error in %q: %v", src, r)
		}
	}()
	e = p.expr()
	if p.peek().kind != "eof" {
		panic(fmt.Sprintf("trailing tokens at %q", p.peek().s))
	}
	return e, nil
}

func (p *parser) peek() tok { return p.toks[p.pos] }
func (p *parser) next() tok { t := p.toks[p.pos]; p.pos++; return t }
func (p *parser) isOp(s string) bool {
	t := p.peek()
	return t.kind == "op" && t.s == s
}
func (p *parser) accept(s string) bool {
	if p.isOp(s) {
		p.pos++
		return true
	}
	return false
}
func (p *parser) expect(s string) {
	if !p.accept(s) {
		panic(fmt.Sprintf("expected %q, got %q", s, p.peek().s))
	}
}

func (p *parser) expr() Expr {
	t := p.peek()
	if t.kind == "id" && (t.s == "forall" || t.s == "exists") {
		p.next()
		q := &Quant{Forall: t.s == "forall"}
		for {
			n := p.next()
			if n.kind != "id" {
				panic("expected bound variable")
			}
			q.Vars = append(q.Vars, QVar{Name: n.s, Type: p.typeName()})
			if !p.accept(",") {
				break
			}
		}
		p.expect("::")
		for p.isOp("{") {
			p.next()
			var trig []Expr
			for {
				trig = append(trig, p.expr())
				if p.accept("}") {
					break
				}
				p.expect(",")
			}
			q.Triggers = append(q.Triggers, trig)
		}
		q.Body = p.expr()
		return q
	}
	return p.iff()
}

// typeName parses a (small) Go type: ident, *T, []T, pkg.T
func (p *parser) typeName() string {
	if p.accept("*") {
		return "*" + p.typeName()
	}
	if p.accept("[") {
		if p.peek().kind == "id" && p.peek().s == "ref" {
			p.next()
			p.expect("]")
			return "[ref]" + p.typeName()
		}
		p.expect("]")
		return "[]" + p.typeName()
	}
	n := p.next()
	if n.kind != "id" {
		panic("expected type name")
	}
	s := n.s
	if p.accept(".") {
		s += "." + p.next().s
	}
	return s
}

func (p *parser) iff() Expr {
	x := p.implies()
	for p.accept("<==>") {
		var y Expr
		if t := p.peek(); t.kind == "id" && (t.s == "forall" || t.s == "exists") {
			y = p.expr()
		} else {
			y = p.implies()
		}
		x = &Binary{"<==>", x, y}
	}
	return x
}

func (p *parser) implies() Expr {
	x := p.cond()
	if p.accept("==>") {
		t := p.peek()
		var y Expr
		if t.kind == "id" && (t.s == "forall" || t.s == "exists") {
			y = p.expr()
		} else {
			y = p.implies()
		}
		return &Binary{"==>", x, y}
	}
	return x
}

func (p *parser) cond() Expr {
	c := p.or()
	if p.accept("?") {
		a := p.cond()
		p.expect(":")
		b := p.cond()
		return &CondE{c, a, b}
	}
	return c
}

func (p *parser) or() Expr {
	x := p.and()
	for p.accept("||") {
		x = &Binary{"||", x, p.and()}
	}
	return x
}

func (p *parser) and() Expr {
	x := p.cmp()
	for p.accept("&&") {
		t := p.peek()
		if t.kind == "id" && (t.s == "forall" || t.s == "exists") {
			x = &Binary{"&&", x, p.expr()}
			return x
		}
		x = &Binary{"&&", x, p.cmp()}
	}
	return x
}

func (p *parser) cmp() Expr {
	x := p.add()
	for {
		t := p.peek()
		if t.kind == "op" {
			switch t.s {
			case "==", "!=", "<", "<=", ">", ">=":
				p.next()
				x = &Binary{t.s, x, p.add()}
				continue
			}
		}
		return x
	}
}

func (p *parser) add() Expr {
	x := p.mul()
	for {
		t := p.peek()
		if t.kind == "op" && (t.s == "+" || t.s == "-" || t.s == "|") {
			p.next()
			x = &Binary{t.s, x, p.mul()}
			continue
		}
		return x
	}
}

func (p *parser) mul() Expr {
	x := p.unary()
	for {
		t := p.peek()
		if t.kind == "op" && (t.s == "*" || t.s == "/" || t.s == "%" || t.s == "&") {
			p.next()
			x = &Binary{t.s, x, p.unary()}
			continue
		}
		return x
	}
}

func (p *parser) unary() Expr {
	t := p.peek()
	if t.kind == "op" && (t.s == "!" || t.s == "-" || t.s == "*" || t.s == "&") {
		p.next()
		return &Unary{t.s, p.unary()}
	}
	return p.postfix()
}

func (p *parser) postfix() Expr {
	x := p.primary()
	for {
		switch {
		case p.accept("["):
			var lo, hi Expr
			if p.isOp(":") {
				p.next()
				if !p.isOp("]") {
					hi = p.expr()
				}
				p.expect("]")
				x = &SliceE{x, nil, hi}
				continue
			}
			lo = p.expr()
			if p.accept(":") {
				if !p.isOp("]") {
					hi = p.expr()
				}
				p.expect("]")
				x = &SliceE{x, lo, hi}
				continue
			}
			p.expect("]")
			x = &IndexE{x, lo}
		case p.isOp("."):
			p.next()
			n := p.next()
			if n.kind != "id" {
				panic("expected field name after '.'")
			}
			// pkg-qualified / method-style call: a.b(args) is a call to "a.b" when a is an identifier
			if p.isOp("(") {
				if id, ok := x.(*Ident); ok {
					p.next()
					x = &CallE{Fun: id.Name + "." + n.s, Args: p.args()}
					continue
				}
			}
			x = &SelE{x, n.s}
		default:
			return x
		}
	}
}

func (p *parser) args() []Expr {
	var a []Expr
	if p.accept(")") {
		return a
	}
	for {
		a = append(a, p.expr())
		if p.accept(")") {
			return a
		}
		p.expect(",")
	}
}

func (p *parser) primary() Expr {
	t := p.next()
	switch t.kind {
	case "int":
		return &IntLit{t.v}
	case "str":
		return &StrLit{t.s}
	case "id":
		switch t.s {
		case "true":
			return &BoolLit{true}
		case "false":
			return &BoolLit{false}
		}
		if p.accept("(") {
			return &CallE{Fun: t.s, Args: p.args()}
		}
		return &Ident{t.s}
	case "op":
		if t.s == "(" {
			e := p.expr()
			p.expect(")")
			return e
		}
	}
	panic(fmt.Sprintf("unexpected token %q", t.s))
}

// conjuncts splits top-level && into separate expressions.
func conjuncts(e Expr) []Expr {
	if b, ok := e.(*Binary); ok && b.Op == "&&" {
		return append(conjuncts(b.X), conjuncts(b.Y)...)
	}
	return []Expr{e}
}

// ---- substitution and flattening of predicate calls

func freeIn(e Expr, name string) bool {
	found := false
	walkExpr(e, func(x Expr) {
		if id, ok := x.(*Ident); ok && id.Name == name {
			found = true
		}
	})
	return found
}

func walkExpr(e Expr, f func(Expr)) {
	if e == nil {
		return
	}
	f(e)
	switch x := e.(type) {
	case *Unary:
		walkExpr(x.X, f)
	case *Binary:
		walkExpr(x.X, f)
		walkExpr(x.Y, f)
	case *IndexE:
		walkExpr(x.X, f)
		walkExpr(x.I, f)
	case *SliceE:
		walkExpr(x.X, f)
		walkExpr(x.Lo, f)
		walkExpr(x.Hi, f)
	case *SelE:
		walkExpr(x.X, f)
	case *CallE:
		for _, a := range x.Args {
			walkExpr(a, f)
		}
	case *Quant:
		walkExpr(x.Body, f)
	case *CondE:
		walkExpr(x.C, f)
		walkExpr(x.A, f)
		walkExpr(x.B, f)
	}
}

var substCtr int

func subst(e Expr, m map[string]Expr) Expr {
	switch x := e.(type) {
	case nil:
		return nil
	case *Ident:
		if r, ok := m[x.Name]; ok {
			return r
		}
		return x
	case *IntLit, *StrLit, *BoolLit:
		return x
	case *Unary:
		return &Unary{x.Op, subst(x.X, m)}
	case *Binary:
		return &Binary{x.Op, subst(x.X, m), subst(x.Y, m)}
	case *IndexE:
		return &IndexE{subst(x.X, m), subst(x.I, m)}
	case *SliceE:
		var lo, hi Expr
		if x.Lo != nil {
			lo = subst(x.Lo, m)
		}
		if x.Hi != nil {
			hi = subst(x.Hi, m)
		}
		return &SliceE{subst(x.X, m), lo, hi}
	case *SelE:
		return &SelE{subst(x.X, m), x.Name}
	case *CallE:
		var as []Expr
		for _, a := range x.Args {
			as = append(as, subst(a, m))
		}
		return &CallE{x.Fun, as}
	case *CondE:
		return &CondE{subst(x.C, m), subst(x.A, m), subst(x.B, m)}
	case *Quant:
		nm := map[string]Expr{}
		for k, v := range m {
			nm[k] = v
		}
		var vars []QVar
		for _, qv := range x.Vars {
			delete(nm, qv.Name)
			clash := false
			for _, r := range m {
				if freeIn(r, qv.Name) {
					clash = true
				}
			}
			if clash {
				substCtr++
				nn := fmt.Sprintf("%s_%d", qv.Name, substCtr)
				nm[qv.Name] = &Ident{nn}
				vars = append(vars, QVar{nn, qv.Type})
			} else {
				vars = append(vars, qv)
			}
		}
		var trigs [][]Expr
		for _, tg := range x.Triggers {
			var nt []Expr
			for _, t := range tg {
				nt = append(nt, subst(t, nm))
			}
			trigs = append(trigs, nt)
		}
		return &Quant{x.Forall, vars, subst(x.Body, nm), trigs}
	}
	return e
}
