package main

// Calls: builtins, contract application, havoc for uncontracted callees.

import (
	"fmt"
	"go/token"
	"go/types"
	"sort"
	"strconv"
	"strings"

	"golang.org/x/tools/go/ssa"
)

func (v *FnVC) call(x *ssa.Call) {
	res := v.callCommon(&x.Call, x, x.Pos(), "call")
	sig := x.Call.Signature()
	switch sig.Results().Len() {
	case 0:
	case 1:
		if len(res) == 1 {
			v.vals[x] = res[0]
		} else {
			v.freshVal(x)
		}
	default:
		v.tuples[x] = res
	}
}

func (v *FnVC) callCommon(c *ssa.CallCommon, val ssa.Value, pos token.Pos, how string) []Term {
	if b, ok := c.Value.(*ssa.Builtin); ok {
		t := v.builtin(b, c, val, pos)
		if b.Name() == "append" && t.S != "" {
			// `assert-at after builtin.append#k : e` - the k-th append of the function in source order; call_result is the slice it returns
			site := fmt.Sprintf("%s#%d", v.shortName(c), v.callOrdinal(c, v.shortName(c)))
			v.runAnchored("after "+site, pos, map[string]Term{"call_result": t})
		}
		if t.S == "" {
			return nil
		}
		return []Term{t}
	}
	var args []Term
	var key, short string
	var pnames []string
	sig := c.Signature()
	if c.IsInvoke() {
		recv := v.val(c.Value)
		args = append(args, recv)
		it := c.Value.Type()
		key, short = ifaceMethodKey(it, c.Method.Name())
		if _, has := v.w.cs.Funcs[key]; !has {
			// no contract under the static interface's name: use the contract of the embedded interface that declares the method
			if d := declaringIface(it, c.Method.Name()); d != nil && d != it {
				if k2, s2 := ifaceMethodKey(d, c.Method.Name()); v.w.cs.Funcs[k2] != nil {
					key, short = k2, s2
				}
			}
		}
		pnames = append(pnames, "self")
		v.safety("nil-iface-call", fmt.Sprintf("(not (= %s 0))", recv.S), pos)
	} else if fn := c.StaticCallee(); fn != nil {
		key, short = funcKey(fn)
		if fn.Signature.Recv() != nil {
			pnames = append(pnames, recvName(fn))
		}
		if mc, ok := c.Value.(*ssa.MakeClosure); ok {
			// direct call of a closure literal: bindings are extra leading values
			_ = mc
		}
	} else {
		// call of a function value
		key, short = "", "funcvalue"
		fv := v.val(c.Value)
		v.safety("nil-func-call", fmt.Sprintf("(not (= %s 0))", fv.S), pos)
		if ct := v.w.funcValueContract(c.Value.Type()); ct != "" {
			key, short = ct, ct[strings.LastIndex(ct, ".")+1:]
			args = append(args, fv)
			pnames = append(pnames, "self")
		} else if pn := paramSource(c.Value); pn != "" {
			// a function-typed parameter of the enclosing function: contract "<function>#<parameter>"
			ek, es := funcKey(v.fn)
			if _, ok := v.w.cs.Funcs[ek+"#"+pn]; ok {
				key, short = ek+"#"+pn, es+"#"+pn
				args = append(args, fv)
				pnames = append(pnames, "self")
			}
		}
	}
	for _, a := range c.Args {
		args = append(args, v.val(a))
	}
	if fn := c.StaticCallee(); fn != nil && len(fn.Params) == len(args) {
		pnames = pnames[:0]
		for _, p := range fn.Params {
			pnames = append(pnames, p.Name())
		}
	} else {
		for i := 0; i < sig.Params().Len(); i++ {
			n := sig.Params().At(i).Name()
			if n == "" || n == "_" {
				n = "arg" + strconv.Itoa(i)
			}
			pnames = append(pnames, n)
		}
	}
	ord := v.callOrdinal(c, short)
	site := fmt.Sprintf("%s#%d", short, ord)
	v.ghostAtCall(site, "before", pnames, args)

	fc := v.w.cs.Funcs[key]
	if fc != nil && len(fc.ParamNames) == len(args) {
		pnames = fc.ParamNames
	}
	var results []Term
	mkResults := func() {
		for i := 0; i < sig.Results().Len(); i++ {
			rt := sig.Results().At(i).Type()
			n := v.fresh("r." + short)
			v.declare(n, v.sortOf(rt))
			results = append(results, Term{n, rt})
		}
	}
	if fc == nil {
		if !v.dry {
			v.noteUncontracted(key, short)
		}
		if !v.w.isPureExtern(key) && how == "call" {
			// an uncontracted callee may panic: exceptional postconditions of the caller are checked here
			v.panicPath("call:"+site, pos, func() {
				v.havocAllHeaps()
				if key == "" || strings.HasPrefix(key, "github.com/tigerwill90/fox") {
					v.havocGhosts()
				}
			})
		}
		if v.w.isPureExtern(key) {
			old := v.get("nextref")
			nn := v.havoc("nextref")
			v.assume(fmt.Sprintf("(>= %s %s)", nn, old))
			mkResults()
			for _, r := range results {
				v.assume(v.rangeOf(r.S, r.T))
			}
			return results
		}
		// sound default: havoc every heap; a callee inside the repository may also run contracted
		// code (locks, publication, writers), so the ghost state is unknown afterwards as well
		v.havocAllHeaps()
		if key == "" || strings.HasPrefix(key, "github.com/tigerwill90/fox") {
			v.havocGhosts()
		}
		mkResults()
		for _, r := range results {
			v.assume(v.rangeOf(r.S, r.T))
			v.assume(v.allocated(r))
		}
		v.ghostAtCall(site, "after", pnames, args)
		return results
	}
	// --- contract application
	pre := v.st.clone()
	cenv := v.newEnv(pre, nil)
	cenv.callee = true
	for i, n := range pnames {
		if i < len(args) {
			cenv.vars[n] = args[i]
		}
	}
	if mc, ok := c.Value.(*ssa.MakeClosure); ok {
		// direct call of a closure (deferred functions): its free variables are bound here
		if cf, ok := mc.Fn.(*ssa.Function); ok {
			for i, fv := range cf.FreeVars {
				if i >= len(mc.Bindings) {
					break
				}
				if _, imm := immutableCapture(cf, i); imm {
					if p, ok := v.places[mc.Bindings[i]]; ok {
						cenv.vars[fv.Name()] = Term{v.load(p, pos), p.Typ}
						continue
					}
					if b, ok := v.vals[mc.Bindings[i]]; ok {
						if pt, ok := b.T.Underlying().(*types.Pointer); ok {
							cenv.vars[fv.Name()] = Term{v.load(&Place{Kind: "cell", Base: b, Typ: pt.Elem()}, pos), pt.Elem()}
							continue
						}
					}
				}
				cenv.vars[fv.Name()] = v.val(mc.Bindings[i])
			}
		}
	}
	k := 0
	for _, cl := range fc.Clauses {
		if cl.Kind != "requires" || cl.Behav != "" {
			continue
		}
		k++
		for j, cj := range v.flatten(cl.E) {
			t := v.specBoolE(cj, cenv, cl)
			v.behavClause = false
			// a precondition labelled "safety" guards only against a panic of the callee: a caller
			// verified for partial correctness assumes it, like its own safety conditions
			claimed := !(v.fc.Partial && strings.HasPrefix(cl.Label, "safety"))
			oblSite := site
			if how == "defer-panic" {
				oblSite += "@panic-in:" + v.panicSite
			}
			v.oblige("pre@call:"+oblSite, v.clauseLabel(cl, k-1, j), t, nil, claimed, cj.String(), pos)
		}
	}
	if how == "call" && fc.mayPanic() {
		// exceptional exit: the callee's frame is applied, nothing of its postcondition is known
		v.panicPath("call:"+site, pos, func() {
			v.applyModifies(fc, cenv, pre)
			// what the callee guarantees when it panics
			xenv := v.newEnv(v.st, cenv)
			xenv.callee = true
			for n, t := range cenv.vars {
				xenv.vars[n] = t
			}
			xenv.atReturn = true
			for _, cl := range fc.Clauses {
				if cl.Kind == "ensures-on-panic" {
					v.assume(v.specBool(cl.E, xenv, cl))
				}
			}
		})
	}
	// frame
	v.applyModifies(fc, cenv, pre)
	mkResults()
	post := v.newEnv(v.st, cenv)
	post.callee = true
	for n, t := range cenv.vars {
		post.vars[n] = t
	}
	post.results = results
	post.atReturn = true
	for i := 0; i < sig.Results().Len() && i < len(results); i++ {
		if n := sig.Results().At(i).Name(); n != "" && n != "_" {
			post.vars[n] = results[i]
		}
	}
	for _, r := range results {
		v.assume(v.rangeOf(r.S, r.T))
		v.assume(v.allocated(r))
	}
	if fc.Pure && len(results) == 1 {
		// link the call to the uninterpreted function used for it in specifications
		if fn := v.w.funcs[key]; fn != nil {
			var as []string
			for _, a := range args {
				as = append(as, a.S)
			}
			name := v.w.pureFn(key, fn)
			if len(as) > 0 {
				v.assume(fmt.Sprintf("(= %s (%s %s))", results[0].S, name, strings.Join(as, " ")))
			}
		}
	}
	if how == "defer-panic" && fc.mayPanic() {
		// a deferred call on a panic path may itself end in a panic (it re-raises): either its normal
		// postcondition holds, or one of its panics-when conditions held at entry and its exceptional
		// postcondition (ensures-on-panic) holds
		var normal, exc, pw []string
		for _, cl := range fc.Clauses {
			switch cl.Kind {
			case "ensures":
				if cl.Behav == "" {
					normal = append(normal, v.specBool(cl.E, post, cl))
				}
			case "ensures-on-panic":
				exc = append(exc, v.specBool(cl.E, post, cl))
			case "panics-when":
				pw = append(pw, v.specBool(cl.E, cenv, cl))
			}
		}
		if fc.MayPanic {
			pw = append(pw, "true")
		}
		v.assume(or(and(normal...), and(append([]string{or(pw...)}, exc...)...)))
		v.ghostAtCall(site, "after", pnames, args)
		return results
	}
	for _, cl := range fc.Clauses {
		if cl.Kind != "ensures" {
			continue
		}
		if cl.Behav != "" {
			// behaviour: assumed only under its own requires
			var reqs []string
			for _, rc := range fc.Clauses {
				if rc.Kind == "requires" && rc.Behav == cl.Behav {
					reqs = append(reqs, v.specBool(rc.E, cenv, rc))
				}
			}
			v.assume(implies(and(reqs...), v.specBool(cl.E, post, cl)))
			continue
		}
		for _, cj := range v.flatten(cl.E) {
			v.assume(v.specBoolE(cj, post, cl))
		}
	}
	if len(results) > 0 {
		// the callee's first result is visible to `after` anchors as call_result
		v.ghostAtCall(site, "after", append(append([]string{}, pnames...), "__call_result"), append(append([]Term{}, args...), results[0]))
	} else {
		v.ghostAtCall(site, "after", pnames, args)
	}
	if how == "call" {
		v.frameCuts(site, pre)
	}
	return results
}

// frameCuts: in a function with a modifies-since clause, the frame condition of every such heap the call
// has just changed is obliged right after the call and then assumed (a cut point): the frame obligations
// at the returns then span one call each instead of the whole path.
func (v *FnVC) frameCuts(site string, pre State) {
	if v.dry || v.fc.Extern || v.fc.SinceGhost == "" || v.panicSite != "" {
		return
	}
	since := v.sinceKeys(v.fc)
	var keys []string
	for _, key := range sortedKeys(v.st) {
		if since[key] && pre[key] != v.st[key] {
			keys = append(keys, key)
		}
	}
	if len(keys) == 0 {
		return
	}
	goals := v.frameGoals(keys)
	for _, key := range sortedKeys(goals) {
		v.behavClause = false
		v.oblige("frame-cut", sanitize(key)+"@after:"+site, goals[key], nil, true, "writes outside the modifies clause (cut point after the call): "+key, 0)
		if v.frameOK == nil {
			v.frameOK = map[string]bool{}
		}
		v.frameOK[v.st[key]] = true
	}
}

// paramSource: the name of the parameter (of the enclosing function) a value was read from.
func paramSource(x ssa.Value) string {
	switch y := x.(type) {
	case *ssa.Parameter:
		return y.Name()
	case *ssa.UnOp:
		if a, ok := y.X.(*ssa.Alloc); ok && a.Comment != "" {
			for _, r := range *a.Referrers() {
				if st, ok := r.(*ssa.Store); ok {
					if p, ok := st.Val.(*ssa.Parameter); ok && p.Name() == a.Comment {
						return p.Name()
					}
				}
			}
		}
	}
	return ""
}

// callOrdinal numbers the call sites of one callee in source order (stable under CFG reordering).
func (v *FnVC) callOrdinal(c *ssa.CallCommon, short string) int {
	if v.callOrd == nil {
		v.callOrd = map[*ssa.CallCommon]int{}
		type site struct {
			c   *ssa.CallCommon
			pos token.Pos
			idx int
		}
		by := map[string][]site{}
		n := 0
		for _, b := range v.fn.Blocks {
			for _, ins := range b.Instrs {
				var cc *ssa.CallCommon
				switch x := ins.(type) {
				case *ssa.Call:
					cc = &x.Call
				case *ssa.Defer:
					cc = &x.Call
				case *ssa.Go:
					cc = &x.Call
				}
				if cc == nil {
					continue
				}
				n++
				name := v.shortName(cc)
				by[name] = append(by[name], site{cc, ins.Pos(), n})
			}
		}
		for _, ss := range by {
			sort.Slice(ss, func(i, j int) bool {
				if ss[i].pos != ss[j].pos {
					return ss[i].pos < ss[j].pos
				}
				return ss[i].idx < ss[j].idx
			})
			for i, s := range ss {
				v.callOrd[s.c] = i + 1
			}
		}
	}
	if o, ok := v.callOrd[c]; ok {
		return o
	}
	v.callCnt[short]++
	return 1000 + v.callCnt[short]
}

// shortName: the callee name used in call-site anchors (must agree with callCommon).
func (v *FnVC) shortName(c *ssa.CallCommon) string {
	if b, ok := c.Value.(*ssa.Builtin); ok {
		return "builtin." + b.Name()
	}
	if c.IsInvoke() {
		_, short := ifaceMethodKey(c.Value.Type(), c.Method.Name())
		return short
	}
	if fn := c.StaticCallee(); fn != nil {
		_, short := funcKey(fn)
		return short
	}
	if ct := v.w.funcValueContract(c.Value.Type()); ct != "" {
		return ct[strings.LastIndex(ct, ".")+1:]
	}
	if pn := paramSource(c.Value); pn != "" {
		ek, es := funcKey(v.fn)
		if _, ok := v.w.cs.Funcs[ek+"#"+pn]; ok {
			return es + "#" + pn
		}
	}
	return "funcvalue"
}

func recvName(fn *ssa.Function) string {
	if len(fn.Params) > 0 {
		return fn.Params[0].Name()
	}
	return "self"
}

func funcKey(fn *ssa.Function) (string, string) {
	pkg := ""
	if fn.Pkg != nil {
		pkg = fn.Pkg.Pkg.Path()
	} else if fn.Object() != nil && fn.Object().Pkg() != nil {
		pkg = fn.Object().Pkg().Path()
	} else if fn.Origin() != nil && fn.Origin().Pkg != nil {
		pkg = fn.Origin().Pkg.Pkg.Path()
	}
	var from *types.Package
	if fn.Pkg != nil {
		from = fn.Pkg.Pkg
	} else if fn.Object() != nil {
		from = fn.Object().Pkg()
	}
	rel := fn.RelString(from)
	return pkg + "." + rel, rel
}

func ifaceMethodKey(it types.Type, m string) (string, string) {
	if n, ok := it.(*types.Named); ok {
		pkg := ""
		if n.Obj().Pkg() != nil {
			pkg = n.Obj().Pkg().Path()
		}
		short := n.Obj().Name() + "." + m
		if pkg == "" {
			pkg = "builtin" // the predeclared error interface
		}
		return pkg + "." + short, short
	}
	return "anon.iface." + m, "iface." + m
}

// declaringIface: the embedded named interface (searched depth first) that declares method m, or nil.
func declaringIface(it types.Type, m string) *types.Named {
	n, ok := it.(*types.Named)
	if !ok {
		return nil
	}
	iface, ok := n.Underlying().(*types.Interface)
	if !ok {
		return nil
	}
	for i := 0; i < iface.NumExplicitMethods(); i++ {
		if iface.ExplicitMethod(i).Name() == m {
			return n
		}
	}
	for i := 0; i < iface.NumEmbeddeds(); i++ {
		if d := declaringIface(iface.EmbeddedType(i), m); d != nil {
			return d
		}
	}
	return nil
}

func (v *FnVC) noteUncontracted(key, short string) {
	n := "call without contract (all heaps havocked): " + key
	if key == "" {
		n = "call of function value without contract (all heaps havocked)"
	}
	for _, x := range v.notes {
		if x == n {
			return
		}
	}
	v.notes = append(v.notes, n)
}

func (v *FnVC) havocGhosts() {
	for _, k := range sortedKeys(v.w.heapSorts) {
		if v.w.ghostKeys[k] && k != "ghost|snapRef" {
			v.havoc(k)
		}
	}
}

func (v *FnVC) havocAllHeaps() {
	for _, k := range sortedKeys(v.w.heapSorts) {
		if k == "nextref" {
			continue
		}
		if v.w.ghostKeys[k] {
			continue // ghost state is only changed by contracts
		}
		if strings.HasPrefix(k, "G|") {
			continue // package-level variables are treated as initialised once (stores outside init are reported)
		}
		v.havoc(k)
	}
	old := v.get("nextref")
	n := v.havoc("nextref")
	v.assume(fmt.Sprintf("(>= %s %s)", n, old))
}

// applyModifies havocs what the callee's frame allows.
func (v *FnVC) applyModifies(fc *FuncContract, cenv *Env, pre State) {
	oldNext := v.get("nextref")
	for _, m := range fc.Modifies {
		v.havocItem(m, cenv, pre, oldNext)
	}
	// modifies-since: the listed heaps may change on objects at or above the snapshot reference
	if fc.SinceGhost != "" {
		if g, ok := v.w.cs.Ghosts[fc.SinceGhost]; ok {
			var lim string
			v.withState(pre, func() { lim = v.get(v.w.ghostKey(g)) })
			for _, key := range sortedKeys(v.sinceKeys(fc)) {
				oldH := v.get(key)
				nh := v.havoc(key)
				v.assume(fmt.Sprintf("(forall ((r! Int)) (! (=> (< r! %s) (= (select %s r!) (select %s r!))) :pattern ((select %s r!))))", lim, nh, oldH, nh))
			}
		}
	}
	// every call may allocate, unless the callee's contract says noalloc
	if fc.NoAlloc && !contains(fc.Modifies, "heap") {
		return
	}
	n := v.havoc("nextref")
	v.assume(fmt.Sprintf("(>= %s %s)", n, oldNext))
}

// havocItem: one item of a modifies clause.
//
//	heap            everything
//	alloc           may allocate (nextref grows; nothing existing changes)
//	T.f             field f of every T object
//	x.f             field f of the object x (x a parameter expression)
//	elems(s)        the backing array of slice s
//	E[T]            every backing array with element type T
//	*p              the cell p points to
//	ghost name      a ghost variable
func (v *FnVC) havocItem(m string, cenv *Env, pre State, oldNext string) {
	switch {
	case m == "heap":
		v.havocAllHeaps()
		return
	case m == "alloc":
		return
	}
	if g, ok := v.w.cs.Ghosts[m]; ok {
		v.havoc(v.w.ghostKey(g))
		return
	}
	if strings.HasPrefix(m, "E[") && strings.HasSuffix(m, "]") {
		t := v.w.parseType(m[2:len(m)-1], v.fn.Pkg)
		v.havoc(v.elemKey(t))
		return
	}
	if strings.HasPrefix(m, "C[") && strings.HasSuffix(m, "]") {
		t := v.w.parseType(m[2:len(m)-1], v.fn.Pkg)
		v.havoc(v.cellKey(t))
		return
	}
	e, err := ParseExpr(m)
	if err != nil {
		v.unsupported("modifies item " + m)
		return
	}
	switch x := e.(type) {
	case *IndexE:
		if id, ok := x.X.(*Ident); ok {
			if g, ok := v.w.cs.Ghosts[id.Name]; ok {
				key := v.w.ghostKey(g)
				gt := v.w.heapTypes[key]
				if isGhostMap(gt) {
					idx := v.specTerm(x.I, cenv, nil)
					et := gt.Underlying().(*types.Map).Elem()
					c := v.fresh("gloc")
					v.declare(c, v.sortOf(et))
					v.set(key, v.heapSort(key), fmt.Sprintf("(store %s %s %s)", v.get(key), idx.S, c))
					v.assume(v.rangeOf(c, et))
					return
				}
			}
		}
		v.unsupported("modifies item " + m)
	case *SelE:
		// T.f (type) or x.f (object)
		if id, ok := x.X.(*Ident); ok {
			if _, isVar := cenv.vars[id.Name]; !isVar {
				if tn := v.w.lookupType(id.Name, v.calleePkg(cenv)); tn != nil {
					if st, ok := tn.Underlying().(*types.Struct); ok {
						for i := 0; i < st.NumFields(); i++ {
							if st.Field(i).Name() == x.Name {
								v.havocField(st, structName(tn), i)
								return
							}
						}
					}
				}
				v.unsupported("modifies item " + m)
				return
			}
		}
		base := v.specTerm(x.X, cenv, nil)
		st, sname, ok := derefStruct(base.T)
		if !ok {
			v.unsupported("modifies item " + m)
			return
		}
		for i := 0; i < st.NumFields(); i++ {
			if st.Field(i).Name() == x.Name {
				v.havocLoc(st, sname, i, base.S)
				return
			}
		}
		v.unsupported("modifies item " + m)
	case *CallE:
		if x.Fun == "mapof" && len(x.Args) == 1 {
			mt := v.specTerm(x.Args[0], cenv, nil)
			if _, ok := mt.T.Underlying().(*types.Map); ok {
				kk, dk, mm := v.mapKeys(mt.T)
				a1 := v.fresh("mapv")
				v.declare(a1, fmt.Sprintf("(Array %s %s)", v.sortOf(mm.Key()), v.sortOf(mm.Elem())))
				a2 := v.fresh("mapd")
				v.declare(a2, fmt.Sprintf("(Array %s Bool)", v.sortOf(mm.Key())))
				v.set(kk, v.heapSort(kk), fmt.Sprintf("(store %s %s %s)", v.get(kk), mt.S, a1))
				v.set(dk, v.heapSort(dk), fmt.Sprintf("(store %s %s %s)", v.get(dk), mt.S, a2))
				return
			}
			v.unsupported("modifies item " + m)
			return
		}
		if x.Fun == "elems" && len(x.Args) == 1 {
			s := v.specTerm(x.Args[0], cenv, nil)
			sl, ok := s.T.Underlying().(*types.Slice)
			if !ok {
				v.unsupported("modifies item " + m)
				return
			}
			key := v.elemKey(sl.Elem())
			arr := v.fresh("arr")
			v.declare(arr, "(Array Int "+v.sortOf(sl.Elem())+")")
			// a slice without capacity has no element that could be written
			v.set(key, v.heapSort(key), fmt.Sprintf("(ite (> (sl_cap %s) 0) (store %s (sl_ref %s) %s) %s)", s.S, v.get(key), s.S, arr, v.get(key)))
			return
		}
		v.unsupported("modifies item " + m)
	case *Unary:
		if x.Op == "*" {
			p := v.specTerm(x.X, cenv, nil)
			pt, ok := p.T.Underlying().(*types.Pointer)
			if !ok {
				v.unsupported("modifies item " + m)
				return
			}
			if st, ok := pt.Elem().Underlying().(*types.Struct); ok {
				for i := 0; i < st.NumFields(); i++ {
					v.havocLoc(st, structName(pt.Elem()), i, p.S)
				}
				return
			}
			key := v.cellKey(pt.Elem())
			c := v.fresh("cell")
			v.declare(c, v.sortOf(pt.Elem()))
			v.set(key, v.heapSort(key), fmt.Sprintf("(store %s %s %s)", v.get(key), p.S, c))
			v.assume(v.rangeOf(c, pt.Elem()))
			return
		}
		v.unsupported("modifies item " + m)
	default:
		v.unsupported("modifies item " + m)
	}
}

func (v *FnVC) calleePkg(env *Env) *ssa.Package { return v.fn.Pkg }

func (v *FnVC) havocField(st *types.Struct, sname string, i int) {
	ft := st.Field(i).Type()
	if fst, ok := ft.Underlying().(*types.Struct); ok {
		for j := 0; j < fst.NumFields(); j++ {
			v.havocField(fst, structName(ft), j)
		}
		return
	}
	v.havoc(v.fieldKey(st, sname, i))
}

func (v *FnVC) havocLoc(st *types.Struct, sname string, i int, ref string) {
	ft := st.Field(i).Type()
	if fst, ok := ft.Underlying().(*types.Struct); ok {
		sub := v.subRef(ref, sname, st, i)
		for j := 0; j < fst.NumFields(); j++ {
			v.havocLoc(fst, structName(ft), j, sub)
		}
		return
	}
	key := v.fieldKey(st, sname, i)
	c := v.fresh("loc")
	v.declare(c, v.sortOf(ft))
	v.set(key, v.heapSort(key), fmt.Sprintf("(store %s %s %s)", v.get(key), ref, c))
	v.assume(v.rangeOf(c, ft))
}

// ---------- builtins

func (v *FnVC) builtin(b *ssa.Builtin, c *ssa.CallCommon, val ssa.Value, pos token.Pos) Term {
	arg := func(i int) Term { return v.val(c.Args[i]) }
	var rt types.Type
	if val != nil {
		rt = val.Type()
	}
	switch b.Name() {
	case "len":
		a := arg(0)
		switch u := a.T.Underlying().(type) {
		case *types.Basic:
			return Term{fmt.Sprintf("(s_len %s)", a.S), rt}
		case *types.Slice:
			return Term{fmt.Sprintf("(sl_len %s)", a.S), rt}
		case *types.Array:
			return Term{strconv.FormatInt(u.Len(), 10), rt}
		case *types.Pointer:
			if at, ok := u.Elem().Underlying().(*types.Array); ok {
				return Term{strconv.FormatInt(at.Len(), 10), rt}
			}
		case *types.Map:
			n := v.fresh("maplen")
			v.declare(n, "Int")
			v.assume(fmt.Sprintf("(>= %s 0)", n))
			return Term{n, rt}
		}
	case "cap":
		a := arg(0)
		if _, ok := a.T.Underlying().(*types.Slice); ok {
			return Term{fmt.Sprintf("(sl_cap %s)", a.S), rt}
		}
	case "min":
		t := arg(0).S
		for i := 1; i < len(c.Args); i++ {
			t = fmt.Sprintf("(imin %s %s)", t, arg(i).S)
		}
		return Term{t, rt}
	case "max":
		t := arg(0).S
		for i := 1; i < len(c.Args); i++ {
			t = fmt.Sprintf("(imax %s %s)", t, arg(i).S)
		}
		return Term{t, rt}
	case "append":
		return v.appendBuiltin(c, rt, pos)
	case "copy":
		return v.copyBuiltin(c, rt, pos)
	case "clear":
		a := arg(0)
		if sl, ok := a.T.Underlying().(*types.Slice); ok {
			key := v.elemKey(sl.Elem())
			arr := v.fresh("cleared")
			es := v.sortOf(sl.Elem())
			v.declare(arr, "(Array Int "+es+")")
			old := fmt.Sprintf("(select %s (sl_ref %s))", v.get(key), a.S)
			v.assume(fmt.Sprintf("(forall ((j Int)) (! (= (select %s j) (ite (and (<= (sl_off %s) j) (< j (+ (sl_off %s) (sl_len %s)))) %s (select %s j))) :pattern ((select %s j))))", arr, a.S, a.S, a.S, v.w.sorts.zeroValue(sl.Elem()), old, arr))
			v.set(key, v.heapSort(key), fmt.Sprintf("(store %s (sl_ref %s) %s)", v.get(key), a.S, arr))
			return Term{}
		}
		if _, ok := a.T.Underlying().(*types.Map); ok {
			v.initMap(a.T, a.S)
			return Term{}
		}
	case "delete":
		m, k := arg(0), arg(1)
		_, dk, _ := v.mapKeys(m.T)
		v.set(dk, v.heapSort(dk), fmt.Sprintf("(store %s %s (store (select %s %s) %s false))", v.get(dk), m.S, v.get(dk), m.S, k.S))
		return Term{}
	case "recover":
		if g, ok := v.w.cs.Ghosts["panicking"]; ok {
			// recover returns the value in flight and stops the panic
			key := v.w.ghostKey(g)
			cur := v.get(key)
			v.set(key, v.heapSort(key), "0")
			return Term{cur, rt}
		}
		n := v.fresh("recovered")
		v.declare(n, "Int")
		return Term{n, rt}
	case "print", "println":
		return Term{}
	case "ssa:wrapnilchk":
		a := arg(0)
		v.safety("nil-deref.wrap", fmt.Sprintf("(not (= %s 0))", a.S), pos)
		return Term{a.S, rt}
	case "ssa:deferstack":
		return Term{"0", rt}
	}
	v.unsupported("builtin " + b.Name())
	if rt != nil {
		n := v.fresh("builtin")
		v.declare(n, v.sortOf(rt))
		return Term{n, rt}
	}
	return Term{}
}

// staticArrayLen: if the variadic argument is a slice of a freshly built [k]T array return k.
func staticSliceLen(x ssa.Value) (int64, bool) {
	sl, ok := x.(*ssa.Slice)
	if !ok || sl.Low != nil || sl.High != nil {
		return 0, false
	}
	al, ok := sl.X.(*ssa.Alloc)
	if !ok {
		return 0, false
	}
	at, ok := al.Type().(*types.Pointer).Elem().Underlying().(*types.Array)
	if !ok {
		return 0, false
	}
	return at.Len(), true
}

// append(s, t...) modelled exactly: in place when there is room, otherwise a fresh array.
func (v *FnVC) appendBuiltin(c *ssa.CallCommon, rt types.Type, pos token.Pos) Term {
	s := v.val(c.Args[0])
	t := v.val(c.Args[1])
	sl := s.T.Underlying().(*types.Slice)
	es := v.sortOf(sl.Elem())
	key := v.elemKey(sl.Elem())
	heap := v.get(key)
	var n string
	var srcAt func(k string) string // element k (0-based) of the appended data
	if isString(t.T) {
		n = fmt.Sprintf("(s_len %s)", t.S)
		srcAt = func(k string) string { return fmt.Sprintf("(str_at %s %s)", t.S, k) }
	} else {
		n = fmt.Sprintf("(sl_len %s)", t.S)
		srcAt = func(k string) string {
			return fmt.Sprintf("(select (select %s (sl_ref %s)) (idx %s %s))", heap, t.S, t.S, k)
		}
	}
	if k, ok := staticSliceLen(c.Args[1]); ok && k <= 8 && !isString(t.T) {
		// exact model for a statically known number of appended elements: no quantifier for the in-place case
		room := v.define("app.room", "Bool", fmt.Sprintf("(<= (+ (sl_len %s) %d) (sl_cap %s))", s.S, k, s.S))
		fresh := v.allocRef("app.new")
		oldArr := fmt.Sprintf("(select %s (sl_ref %s))", heap, s.S)
		inplace := oldArr
		for i := int64(0); i < k; i++ {
			inplace = fmt.Sprintf("(store %s (idx %s (+ (sl_len %s) %d)) %s)", inplace, s.S, s.S, i, srcAt(strconv.FormatInt(i, 10)))
		}
		copied := v.fresh("app.copy")
		v.declare(copied, "(Array Int "+es+")")
		v.assume(fmt.Sprintf("(forall ((j Int)) (! (=> (and (<= 0 j) (< j (sl_len %s))) (= (select %s j) (select %s (idx %s j)))) :pattern ((select %s j))))", s.S, copied, oldArr, s.S, copied))
		grown := copied
		for i := int64(0); i < k; i++ {
			grown = fmt.Sprintf("(store %s (+ (sl_len %s) %d) %s)", grown, s.S, i, srcAt(strconv.FormatInt(i, 10)))
		}
		newcap := v.fresh("app.cap")
		v.declare(newcap, "Int")
		v.assume(fmt.Sprintf("(>= %s (+ (sl_len %s) %d))", newcap, s.S, k))
		res := v.defineConst("app.res", "Slice", fmt.Sprintf("(ite %s (mk_slice (sl_ref %s) (sl_off %s) (+ (sl_len %s) %d) (sl_cap %s)) (mk_slice %s 0 (+ (sl_len %s) %d) %s))", room, s.S, s.S, s.S, k, s.S, fresh, s.S, k, newcap))
		// index bridge: reading the result at i is reading the old slice at i (in place) or the copy at i
		v.assume(fmt.Sprintf("(forall ((i Int)) (! (= (idx %s i) (ite %s (idx %s i) i)) :pattern ((idx %s i))))", res, room, s.S, res))
		v.set(key, v.heapSort(key), fmt.Sprintf("(ite %s (store %s (sl_ref %s) %s) (store %s %s %s))", room, heap, s.S, inplace, heap, fresh, grown))
		return Term{res, rt}
	}
	n = v.define("app.n", "Int", n)
	room := v.define("app.room", "Bool", fmt.Sprintf("(<= (+ (sl_len %s) %s) (sl_cap %s))", s.S, n, s.S))
	fresh := v.allocRef("app.new")
	r := v.fresh("app.res")
	v.declare(r, "Slice")
	arr := v.fresh("app.arr")
	v.declare(arr, "(Array Int "+es+")")
	newLen := fmt.Sprintf("(+ (sl_len %s) %s)", s.S, n)
	v.assume(fmt.Sprintf("(= (sl_len %s) %s)", r, newLen))
	v.assume(fmt.Sprintf("(ite %s (and (= (sl_ref %s) (sl_ref %s)) (= (sl_off %s) (sl_off %s)) (= (sl_cap %s) (sl_cap %s))) (and (= (sl_ref %s) %s) (= (sl_off %s) 0) (>= (sl_cap %s) %s)))",
		room, r, s.S, r, s.S, r, s.S, r, fresh, r, r, newLen))
	// nothing appended to a nil/any slice with n == 0 and room: result is s itself (covered by ite)
	oldArr := fmt.Sprintf("(select %s (sl_ref %s))", heap, s.S)
	// contents of the result array, index-normal: j is an index into arr
	// kept prefix
	v.assume(fmt.Sprintf("(forall ((j Int)) (! (=> (and (<= (sl_off %s) j) (< j (+ (sl_off %s) (sl_len %s)))) (= (select %s j) (select %s (+ (sl_off %s) (- j (sl_off %s)))))) :pattern ((select %s j))))",
		r, r, s.S, arr, oldArr, s.S, r, arr))
	// appended part
	if k, ok := staticSliceLen(c.Args[1]); ok && k <= 8 {
		for i := int64(0); i < k; i++ {
			v.assume(fmt.Sprintf("(= (select %s (+ (sl_off %s) (sl_len %s) %d)) %s)", arr, r, s.S, i, srcAt(strconv.FormatInt(i, 10))))
		}
	} else {
		v.assume(fmt.Sprintf("(forall ((j Int)) (! (=> (and (<= (+ (sl_off %s) (sl_len %s)) j) (< j (+ (sl_off %s) %s))) (= (select %s j) %s)) :pattern ((select %s j))))",
			r, s.S, r, newLen, arr, srcAt(fmt.Sprintf("(- j (+ (sl_off %s) (sl_len %s)))", r, s.S)), arr))
	}
	// in place: everything outside the appended window is unchanged
	v.assume(fmt.Sprintf("(=> %s (forall ((j Int)) (! (=> (not (and (<= (+ (sl_off %s) (sl_len %s)) j) (< j (+ (sl_off %s) %s)))) (= (select %s j) (select %s j))) :pattern ((select %s j)))))",
		room, s.S, s.S, s.S, newLen, arr, oldArr, arr))
	v.set(key, v.heapSort(key), fmt.Sprintf("(store %s (sl_ref %s) %s)", heap, r, arr))
	v.assume(v.rangeOf(r, s.T))
	return Term{r, rt}
}

func (v *FnVC) copyBuiltin(c *ssa.CallCommon, rt types.Type, pos token.Pos) Term {
	d := v.val(c.Args[0])
	s := v.val(c.Args[1])
	sl := d.T.Underlying().(*types.Slice)
	es := v.sortOf(sl.Elem())
	key := v.elemKey(sl.Elem())
	heap := v.get(key)
	var slen string
	var srcAt func(k string) string
	if isString(s.T) {
		slen = fmt.Sprintf("(s_len %s)", s.S)
		srcAt = func(k string) string { return fmt.Sprintf("(str_at %s %s)", s.S, k) }
	} else {
		slen = fmt.Sprintf("(sl_len %s)", s.S)
		srcAt = func(k string) string {
			return fmt.Sprintf("(select (select %s (sl_ref %s)) (idx %s %s))", heap, s.S, s.S, k)
		}
	}
	n := v.define("copy.n", "Int", fmt.Sprintf("(imin (sl_len %s) %s)", d.S, slen))
	arr := v.fresh("copy.arr")
	v.declare(arr, "(Array Int "+es+")")
	oldArr := fmt.Sprintf("(select %s (sl_ref %s))", heap, d.S)
	v.assume(fmt.Sprintf("(forall ((j Int)) (! (= (select %s j) (ite (and (<= (sl_off %s) j) (< j (+ (sl_off %s) %s))) %s (select %s j))) :pattern ((select %s j))))",
		arr, d.S, d.S, n, srcAt(fmt.Sprintf("(- j (sl_off %s))", d.S)), oldArr, arr))
	// copy into a nil slice copies nothing and touches nothing
	v.set(key, v.heapSort(key), fmt.Sprintf("(ite (> %s 0) (store %s (sl_ref %s) %s) %s)", n, heap, d.S, arr, heap))
	return Term{n, rt}
}

// mayPanic: the contract declares that a call can end in a panic (panics-when clauses, or may-panic for
// callees that run caller-supplied code).  Callees under contract without either are taken not to panic.
func (fc *FuncContract) mayPanic() bool {
	if fc.MayPanic {
		return true
	}
	for _, cl := range fc.Clauses {
		if cl.Kind == "panics-when" {
			return true
		}
	}
	return false
}

func (v *FnVC) onPanicClauses() []*Clause {
	var cls []*Clause
	for _, cl := range v.fc.Clauses {
		if cl.Kind == "ensures-on-panic" && (cl.Behav == "" || cl.Behav == v.behav) {
			cls = append(cls, cl)
		}
	}
	return cls
}

// panicPath checks the function's exceptional postconditions (ensures-on-panic) for a panic raised by the
// call at `site`: the callee's effects are havocked by `havoc`, a panic is in flight, the deferred calls
// registered on every path to this point run in reverse order (their contracts are applied, their
// preconditions obliged), and every ensures-on-panic clause must hold in the resulting state.  The normal
// path continues from the state before.
func (v *FnVC) panicPath(site string, pos token.Pos, havoc func()) {
	cls := v.onPanicClauses()
	if len(cls) == 0 || v.panicSite != "" {
		return
	}
	v.panicSite = site
	bi := v.blocks[v.cur]
	saveSt, na, pt := v.st.clone(), len(bi.assumes), bi.point
	havoc()
	if g, ok := v.w.cs.Ghosts["panicking"]; ok {
		key := v.w.ghostKey(g)
		p := v.fresh("inflight")
		v.declare(p, "Int")
		v.assume(fmt.Sprintf("(not (= %s 0))", p))
		v.set(key, v.heapSort(key), p)
	}
	for i := len(v.deferred) - 1; i >= 0; i-- {
		d := v.deferred[i]
		if !d.Block().Dominates(v.cur) {
			// registered on some paths only: it cannot be relied upon
			continue
		}
		v.callCommon(&d.Call, nil, d.Pos(), "defer-panic")
	}
	env := v.newEnv(v.st, v.initEnv)
	env.atReturn = true
	for k, cl := range cls {
		for j, c := range v.flatten(cl.E) {
			t := v.specBoolE(c, env, cl)
			v.behavClause = cl.Behav != ""
			v.oblige("on-panic@"+site, v.clauseLabel(cl, k, j), t, cl.Props, true, c.String(), pos)
		}
	}
	v.st, bi.assumes, bi.point = saveSt, bi.assumes[:na], pt
	v.panicSite = ""
}
