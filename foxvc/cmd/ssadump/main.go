package main

import (
	"fmt"
	"os"

	"golang.org/x/tools/go/packages"
	"golang.org/x/tools/go/ssa"
	"golang.org/x/tools/go/ssa/ssautil"
)

func main() {
	cfg := &packages.Config{Mode: packages.LoadAllSyntax, Dir: os.Args[1], BuildFlags: []string{"-tags=verif"}}
	pkgs, err := packages.Load(cfg, "./...")
	if err != nil {
		panic(err)
	}
	prog, spkgs := ssautil.AllPackages(pkgs, ssa.NaiveForm|ssa.InstantiateGenerics)
	prog.Build()
	for _, p := range spkgs {
		if p == nil {
			continue
		}
		for _, m := range p.Members {
			if f, ok := m.(*ssa.Function); ok && f.Name() == os.Args[2] {
				f.WriteTo(os.Stdout)
			}
		}
	}
	fmt.Println("done")
}
