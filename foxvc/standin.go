package main

// Bounded stand-ins: executable postconditions evaluated on the real code over an
// exhaustively enumerated bounded space (go test -overlay).  Reported under
// coverage.bounded, labelled bounded, never counted among the proved obligations.

import (
	"encoding/json"
	"fmt"
	"os"
	"os/exec"
	"path/filepath"
	"strings"
	"time"
)

type StandinSpec struct {
	File string `json:"file"`
	Test string `json:"test"`
	Dir  string `json:"dir"`
	What string `json:"what"`
}

type StandinResult struct {
	Spec       StandinSpec            `json:"spec"`
	Stats      map[string]interface{} `json:"stats"`
	Mismatches []string               `json:"mismatches"`
	Known      []string               `json:"known_findings"`
	WallS      float64                `json:"wall_s"`
	Cmd        string                 `json:"cmd"`
	Error      string                 `json:"error,omitempty"`
}

type KnownFinding struct {
	Property    string   `json:"property"`
	Properties  []string `json:"properties"`
	Status      string   `json:"status"`
	Obligations []string `json:"obligations"`
	Match       []string `json:"standin_match"`
	What        string   `json:"what"`
}

func loadKnownFindings(out string) []KnownFinding {
	var kf struct {
		Findings []KnownFinding `json:"findings"`
	}
	data, err := os.ReadFile(filepath.Join(out, "known_findings.json"))
	if err != nil {
		return nil
	}
	json.Unmarshal(data, &kf)
	return kf.Findings
}

func runStandins(o *checkOpts) []*StandinResult {
	data, err := os.ReadFile(filepath.Join(o.out, "standins", "standins.json"))
	if err != nil {
		return nil
	}
	var all map[string][]StandinSpec
	if json.Unmarshal(data, &all) != nil {
		return nil
	}
	var out []*StandinResult
	for _, sp := range all[o.prop] {
		out = append(out, runStandin(o, sp))
	}
	return out
}

func runStandin(o *checkOpts, sp StandinSpec) *StandinResult {
	res := &StandinResult{Spec: sp}
	start := time.Now()
	src := filepath.Join(o.out, "standins", sp.File)
	pkgDir := filepath.Join(o.repo, sp.Dir)
	tmp, _ := os.MkdirTemp("", "foxvc-standin")
	defer os.RemoveAll(tmp)
	ov := map[string]interface{}{"Replace": map[string]string{filepath.Join(pkgDir, "zz_foxvc_standin_test.go"): src}}
	ovData, _ := json.Marshal(ov)
	ovFile := filepath.Join(tmp, "overlay.json")
	os.WriteFile(ovFile, ovData, 0o644)
	args := []string{"test", "-overlay", ovFile, "-vet=off", "-v", "-count=1", "-timeout", "900s", "-run", "^" + sp.Test + "$", "."}
	cmd := exec.Command("go", args...)
	cmd.Dir = pkgDir
	cmd.Env = append(os.Environ(), "GOFLAGS=-mod=mod", "GOPROXY=off", "FOXVC_TIER="+o.tier, fmt.Sprintf("FOXVC_SEED=%d", o.seed))
	res.Cmd = fmt.Sprintf("cd %s && FOXVC_TIER=%s GOFLAGS=-mod=mod GOPROXY=off go test -overlay <{\"Replace\":{\"%s\":\"%s\"}}> -vet=off -count=1 -run '^%s$' .", pkgDir, o.tier, filepath.Join(pkgDir, "zz_foxvc_standin_test.go"), src, sp.Test)
	outB, err := cmd.CombinedOutput()
	res.WallS = time.Since(start).Seconds()
	text := string(outB)
	sawStats := false
	for _, ln := range strings.Split(text, "\n") {
		if strings.HasPrefix(ln, "STANDIN ") {
			json.Unmarshal([]byte(ln[8:]), &res.Stats)
			sawStats = true
		}
		if k := strings.Index(ln, "MISMATCH "); k >= 0 {
			res.Mismatches = append(res.Mismatches, strings.TrimSpace(ln[k+9:]))
		}
	}
	if !sawStats {
		res.Error = "stand-in did not run to completion: " + truncate(text, 1500)
		if err != nil {
			res.Error += " (" + err.Error() + ")"
		}
	}
	if res.Stats != nil {
		delete(res.Stats, "mismatches")
	}
	return res
}
