package main

import (
	"context"
	"go/types"

	"golang.org/x/tools/go/ssa"

	"encoding/json"
	"flag"
	"fmt"
	"os"
	"path/filepath"
	"sort"
	"strings"
	"sync"
	"time"
)

type FuncReport struct {
	Name          string   `json:"name"`
	Behaviors     []string `json:"behaviors,omitempty"`
	Obligations   int      `json:"obligations"`
	Discharged    int      `json:"discharged"`
	Partial       bool     `json:"partial_correctness_only,omitempty"`
	SafetyAssumed int      `json:"safety_assumed,omitempty"`
	Notes         []string `json:"notes,omitempty"`
	Unsupported   []string `json:"unsupported,omitempty"`
}

type fnRun struct {
	v  *FnVC
	fc *FuncContract
}

func newFnVC(w *World, fc *FuncContract, behav string) *FnVC {
	fn := w.findFunction(fc)
	v := &FnVC{w: w, fn: fn, fc: fc, behav: behav, oblSeen: map[string]int{}}
	v.fname = fn.Pkg.Pkg.Name() + "." + fc.Name
	v.localSorts = map[string]string{}
	v.localTypes = map[string]types.Type{}
	v.localNames = map[string]string{}
	v.tuples = map[ssa.Value][]Term{}
	return v
}

func main() {
	if len(os.Args) < 2 {
		fmt.Fprintln(os.Stderr, "usage: foxvc check|list|dump ...")
		os.Exit(2)
	}
	switch os.Args[1] {
	case "check":
		os.Exit(cmdCheck(os.Args[2:]))
	case "dump":
		os.Exit(cmdDump(os.Args[2:]))
	default:
		fmt.Fprintln(os.Stderr, "unknown command")
		os.Exit(2)
	}
}

func cmdDump(args []string) int {
	fs := flag.NewFlagSet("dump", flag.ExitOnError)
	repo := fs.String("repo", "/repo", "repository")
	fn := fs.String("func", "", "function (pkg.Name)")
	fs.Parse(args)
	var extra []string
	if ents, err := os.ReadDir("/verif/foxvc/externs"); err == nil {
		for _, e := range ents {
			if strings.HasSuffix(e.Name(), ".spec") {
				extra = append(extra, filepath.Join("/verif/foxvc/externs", e.Name()))
			}
		}
	}
	w, err := LoadWorld(*repo, extra)
	if err != nil {
		fmt.Fprintln(os.Stderr, err)
		return 2
	}
	for k, f := range w.funcs {
		if strings.HasSuffix(k, *fn) {
			f.WriteTo(os.Stdout)
		}
	}
	return 0
}

type checkOpts struct {
	repo, prop, tier, out, only, extern string
	seed                                int
	keep                                bool
	stab                                int
	nosolve, fast                       bool
	verbose                             bool
}

func cmdCheck(args []string) int {
	fs := flag.NewFlagSet("check", flag.ExitOnError)
	var o checkOpts
	fs.StringVar(&o.repo, "repo", "/repo", "repository working tree")
	fs.StringVar(&o.prop, "prop", "", "property id")
	fs.StringVar(&o.tier, "tier", "quick", "quick|thorough")
	fs.StringVar(&o.out, "out", "/verif", "verif directory (evidence/, replays/)")
	fs.StringVar(&o.only, "only", "", "only functions whose name contains this")
	fs.StringVar(&o.extern, "externs", "", "directory with extern spec files")
	fs.IntVar(&o.seed, "seed", 0, "seed")
	fs.BoolVar(&o.keep, "keep", false, "keep query files")
	fs.BoolVar(&o.verbose, "v", false, "verbose")
	fs.BoolVar(&o.fast, "fast", false, "development: one 8 s attempt (three seeds raced) per obligation, no retry, no replay (never used by registered commands)")
	fs.BoolVar(&o.nosolve, "nosolve", false, "generate the verification conditions and print notes only")
	fs.IntVar(&o.stab, "stab", 0, "stability test: additionally run every obligation with this many z3 random seeds (report only)")
	fs.Parse(args)
	start := time.Now()
	var extra []string
	if o.extern == "" {
		o.extern = filepath.Join(o.out, "foxvc", "externs")
	}
	if ents, err := os.ReadDir(o.extern); err == nil {
		for _, e := range ents {
			if strings.HasSuffix(e.Name(), ".spec") {
				extra = append(extra, filepath.Join(o.extern, e.Name()))
			}
		}
	}
	w, err := LoadWorld(o.repo, extra)
	if err != nil {
		fmt.Fprintln(os.Stderr, "load:", err)
		return 2
	}
	os.RemoveAll(filepath.Join(o.out, "replays", o.prop))
	rep := runProperty(w, &o)
	rep.Standins = runStandins(&o)
	rep.WallS = time.Since(start).Seconds()
	return rep.finish(&o)
}

type Report struct {
	Prop      string
	w         *World
	Funcs     []*FuncReport
	Obls      []*Obligation
	Failed    []*Obligation
	WallS     float64
	SolverMs  int64
	ByBackend map[string]int
	Errors    []string
	Externs   []string
	Vacuity   []string
	Unstable  []string
	Standins  []*StandinResult
	Effects   []*effectResult
}

func runProperty(w *World, o *checkOpts) *Report {
	rep := &Report{Prop: o.prop, w: w, ByBackend: map[string]int{}}
	fcs := w.functionsForProp(o.prop)
	var runs []*FnVC
	for _, fc := range fcs {
		if o.only != "" && !strings.Contains(fc.Name, o.only) {
			continue
		}
		if w.findFunction(fc) == nil {
			rep.Errors = append(rep.Errors, fmt.Sprintf("contract for %s.%s: function not found in the current tree", fc.Pkg, fc.Name))
			continue
		}
		behavs := append([]string{""}, fc.Behavs...)
		fr := &FuncReport{Name: fc.Pkg + "." + fc.Name, Partial: fc.Partial}
		for _, bh := range behavs {
			// a clause that no longer fits the code (unknown local, missing call site or loop) is
			// reported as a stale contract and dropped, so that the remaining clauses are still decided
			cur := fc
			var v *FnVC
			var err error
			for attempt := 0; attempt < 40; attempt++ {
				v = newFnVC(w, cur, bh)
				var stale *Clause
				stale, err = safeRun(v)
				if err == nil || stale == nil {
					break
				}
				inCur := false
				for _, cl := range cur.Clauses {
					if cl == stale {
						inCur = true
					}
				}
				if !inCur {
					break // the clause belongs to a callee's contract: nothing to drop here
				}
				if relevantClause(fc, stale, o.prop) {
					rep.Errors = append(rep.Errors, fmt.Sprintf("%s: stale contract clause: %v", v.fname, err))
				}
				cp := *cur
				cp.Clauses = nil
				for _, cl := range cur.Clauses {
					if cl != stale {
						cp.Clauses = append(cp.Clauses, cl)
					}
				}
				cur = &cp
			}
			if err != nil {
				rep.Errors = append(rep.Errors, fmt.Sprintf("%s: %v", v.fname, err))
				continue
			}
			for i, gs := range fc.GhostSets {
				tags := fc.Props
				if i < len(fc.GhostSetTags) && fc.GhostSetTags[i] != "" {
					tags = strings.Split(fc.GhostSetTags[i], ",")
				}
				if o.prop != "" && !contains(tags, o.prop) {
					continue
				}
				if msg, bad := v.staleGhostSet[i]; bad {
					rep.Errors = append(rep.Errors, fmt.Sprintf("%s: stale ghost-set %q: %s", v.fname, gs[0]+" : "+gs[1]+" = "+gs[2], msg))
				} else if !v.usedGhostSet[i] {
					rep.Errors = append(rep.Errors, fmt.Sprintf("%s: stale ghost-set %q: its anchor does not exist in the code", v.fname, gs[0]+" : "+gs[1]+" = "+gs[2]))
				}
			}
			for _, cl := range v.unusedAnchored() {
				if relevantClause(fc, cl, o.prop) {
					rep.Errors = append(rep.Errors, fmt.Sprintf("%s: stale contract clause: %s:%d: its anchor or loop does not exist in the code (%q)", v.fname, cl.File, cl.Line, cl.Text))
				}
			}
			if bh != "" {
				fr.Behaviors = append(fr.Behaviors, bh)
			}
			fr.Notes = append(fr.Notes, v.notes...)
			fr.Unsupported = append(fr.Unsupported, v.unsup...)
			fr.SafetyAssumed += v.safetyAssumed
			runs = append(runs, v)
		}
		rep.Funcs = append(rep.Funcs, fr)
	}
	if o.nosolve {
		for _, fr := range rep.Funcs {
			for _, n := range fr.Notes {
				fmt.Println("NOTE", fr.Name, n)
			}
			for _, n := range fr.Unsupported {
				fmt.Println("UNSUPPORTED", fr.Name, n)
			}
		}
		n := 0
		for _, v := range runs {
			n += len(v.obls)
		}
		fmt.Println("obligations generated:", n)
		os.Exit(0)
	}
	// collect obligations relevant to the property
	type job struct {
		v *FnVC
		o *Obligation
	}
	var jobs []job
	for _, v := range runs {
		for _, ob := range v.obls {
			if o.prop != "" && !contains(ob.Props, o.prop) {
				continue
			}
			jobs = append(jobs, job{v, ob})
		}
	}
	// effect clauses (call-graph closure, no SMT)
	for _, d := range w.cs.Effects {
		if o.prop != "" && !contains(d.Props, o.prop) {
			continue
		}
		er := w.checkEffect(d, o.repo)
		ob := &Obligation{Name: "effect/" + d.Func + "/" + d.Effect, Kind: "effect", Props: d.Props, Func: d.Pkg + "." + d.Func, Claimed: true,
			Text: fmt.Sprintf("%s reaches no %s site (closure over %d functions; %d dynamic calls, %d calls leaving the module and %d appends not followed; except: %v)", d.Func, strings.TrimPrefix(d.Effect, "no"), len(er.Functions), er.Dynamic, er.External, er.Appends, er.Excepted)}
		ob.Result = &SolveResult{Status: "unsat", Solver: "effect-closure"}
		if len(er.Violations) > 0 {
			ob.Result.Status = "sat"
			ob.Result.Output = strings.Join(er.Violations, "\n")
		}
		rep.Effects = append(rep.Effects, er)
		jobs = append(jobs, job{&FnVC{w: w, fname: d.Pkg + "." + d.Func, fc: &FuncContract{Pkg: d.Pkg, Name: d.Func, Props: d.Props}}, ob})
	}
	// table audits
	for _, a := range w.cs.Audits {
		if o.prop != "" && !contains(a.Props, o.prop) {
			continue
		}
		if p := w.pkgByPath(a.Pkg); p != nil {
			a.Pkg = p.Pkg.Name()
		}
		var obls []*Obligation
		var errs []string
		if a.Kind == "string-table" {
			obls, errs = w.stringTableObligations(a)
		} else {
			obls, errs = w.cidrObligations(a)
		}
		rep.Errors = append(rep.Errors, errs...)
		fr := &FuncReport{Name: a.Pkg + ".tables (" + strings.Join(a.Tables, ", ") + ")"}
		rep.Funcs = append(rep.Funcs, fr)
		av := &FnVC{w: w, fname: a.Pkg + ".tables", fc: &FuncContract{Pkg: a.Pkg, Name: "tables (" + strings.Join(a.Tables, ", ") + ")", Props: a.Props}}
		for _, ob := range obls {
			jobs = append(jobs, job{av, ob})
		}
	}
	// lemmas: each is proved from the axioms and lemmas declared before it
	for li, ax := range w.cs.Axioms {
		if !ax.Lemma || (o.prop != "" && !contains(ax.Props, o.prop)) {
			continue
		}
		lv := &FnVC{w: w, fname: "lemma", fc: &FuncContract{Pkg: ax.Pkg, Name: "lemmas", Props: ax.Props}, oblSeen: map[string]int{}}
		lv.localSorts = map[string]string{}
		lv.initial = State{}
		lv.st = State{}
		env := &Env{v: lv, vars: map[string]Term{}, st: State{}, callee: true, pkg: w.pkgByPath(ax.Pkg)}
		var pre strings.Builder
		var goal string
		err := func() (err error) {
			defer func() {
				if r := recover(); r != nil {
					if se, ok := r.(specError); ok {
						err = fmt.Errorf("%s", se.msg)
						return
					}
					panic(r)
				}
			}()
			for _, prev := range w.cs.Axioms[:li] {
				if p := w.pkgByPath(prev.Pkg); p != nil {
					env.pkg = p
				}
				fmt.Fprintf(&pre, "(assert %s) ; %s\n", lv.specBoolE(prev.E, env, &Clause{Text: prev.Text, File: "axiom " + prev.Name}), prev.Name)
			}
			env.pkg = w.pkgByPath(ax.Pkg)
			goal = lv.specBoolE(ax.E, env, &Clause{Text: ax.Text, File: "lemma " + ax.Name})
			return nil
		}()
		if err != nil {
			rep.Errors = append(rep.Errors, "lemma "+ax.Name+": "+err.Error())
			continue
		}
		q := prelude + w.sorts.decls.String() + bitsDecl + "\n" + w.decls.String() + lv.body.String() + pre.String() + "(assert (not " + goal + "))\n(check-sat)\n"
		ob := &Obligation{Name: "lemma/" + ax.Name, Kind: "lemma", Props: ax.Props, Func: "lemmas", Claimed: true, Text: ax.Text, RawQuery: q}
		fname := ax.Pkg + ".lemmas"
		found := false
		for _, fr := range rep.Funcs {
			if fr.Name == fname {
				found = true
			}
		}
		if !found {
			rep.Funcs = append(rep.Funcs, &FuncReport{Name: fname})
		}
		jobs = append(jobs, job{lv, ob})
	}
	qdir := filepath.Join(os.TempDir(), fmt.Sprintf("foxvc-%d", os.Getpid()))
	os.MkdirAll(qdir, 0o755)
	if !o.keep {
		defer os.RemoveAll(qdir)
	}
	quick, full := 3, 15
	if o.tier == "thorough" {
		quick, full = 5, 60
	}
	if o.fast {
		quick, full = 8, 1
	}
	var wg sync.WaitGroup
	sem := make(chan struct{}, 16)
	for _, j := range jobs {
		wg.Add(1)
		sem <- struct{}{}
		go func(j job) {
			defer wg.Done()
			defer func() { <-sem }()
			if j.o.Result != nil {
				return // decided without a solver (effect closure)
			}
			var text string
			if j.o.RawQuery != "" {
				text = j.o.RawQuery
			} else {
				text = w.queryText(j.v, j.o, 0)
			}
			file := writeQuery(qdir, j.o.Name, text)
			want := "unsat"
			if j.o.Cover {
				want = "sat"
			}
			j.o.Result = solve(file, quick, full, want)
			if j.o.RawQuery != "" && j.o.Result.Status == "sat" {
				j.o.Witness = bvModelIP(j.o.Result.Output, j.o.RawBits)
			}
			if j.o.RawQuery == "" && j.o.Result.Status == "sat" && !j.o.Cover && len(j.o.Vars) > 0 {
				// ask again for a small, printable model
				text2 := w.queryText(j.v, j.o, 24)
				file2 := writeQuery(qdir, j.o.Name+".model", text2)
				r2 := solveModel(file2, full)
				if r2.Status == "sat" {
					j.o.Result.Model = parseModel(r2.Output)
				}
			}
		}(j)
	}
	wg.Wait()
	if o.tier == "thorough" && o.stab == 0 && !o.fast {
		o.stab = 2 // thorough: every discharged obligation is re-run under two more solver seeds (report only)
	}
	if o.stab > 0 {
		var mu sync.Mutex
		var wg2 sync.WaitGroup
		for _, j := range jobs {
			if j.o.Cover || j.o.Result.Status != "unsat" || j.o.Result.File == "" {
				continue
			}
			wg2.Add(1)
			sem <- struct{}{}
			go func(j job) {
				defer wg2.Done()
				defer func() { <-sem }()
				for s := 1; s <= o.stab; s++ {
					sp := solverSpec{"z3-new", func(f string, sec int) []string {
						return []string{"z3-new", fmt.Sprintf("-T:%d", sec), fmt.Sprintf("smt.random_seed=%d", s*7919), fmt.Sprintf("sat.random_seed=%d", s*104729), f}
					}}
					st, _, ms := runSolver(context.Background(), sp, j.o.Result.File, 5)
					if st != "unsat" || ms > 2500 {
						mu.Lock()
						rep.Unstable = append(rep.Unstable, fmt.Sprintf("%s seed#%d: %s %dms", j.o.Name, s, st, ms))
						mu.Unlock()
					}
				}
			}(j)
		}
		wg2.Wait()
		sort.Strings(rep.Unstable)
		for _, u := range rep.Unstable {
			fmt.Println("UNSTABLE", u)
		}
	}
	// second chance: obligations that timed out while the machine was loaded are retried alone.  Only when few
	// are undecided: a mass failure is not load, and retrying each of them serially with tripled time-outs would
	// turn a failing check into an hour-long one.
	undecided := 0
	for _, j := range jobs {
		ob := j.o
		if !(ob.Cover || ob.Result.Status == "unsat" || ob.Result.Status == "sat" || ob.Kind == "effect") {
			undecided++
		}
	}
	for _, j := range jobs {
		ob := j.o
		if ob.Cover || ob.Result.Status == "unsat" || ob.Result.Status == "sat" || ob.Kind == "effect" {
			continue
		}
		if o.fast || undecided > 12 {
			break
		}
		r2 := solve(ob.Result.File, quick*2, full*3, "unsat")
		r2.Tried = append(ob.Result.Tried, r2.Tried...)
		if r2.Status == "unsat" || r2.Status == "sat" {
			r2.Tried = append(r2.Tried, "decided-on-retry")
			ob.Result = r2
		}
	}
	// replay: candidate inputs of failed obligations are run against the real code
	replays, weakened := 0, 0
	seenInput := map[string]bool{}
	searchDone := map[string]*ReplayResult{}
	for _, j := range jobs {
		ob := j.o
		if ob.Cover || ob.Result.Status == "unsat" || ob.RawQuery != "" || o.fast || ob.Kind == "effect" || ob.Result.Solver == "table-audit" {
			continue
		}
		if ob.Result.Model == nil && weakened < 8 {
			weakened++
			// no model (unknown/timeout): retry with quantified hypotheses dropped; any
			// candidate is only believed if the replay confirms it on the real code
			// (at most 8 such searches per run: the rest are reported with no-failing-input-found)
			text := weaken(w.queryText(j.v, ob, 24))
			file := writeQuery(qdir, ob.Name+".weak", text)
			r2 := solveModel(file, full)
			if r2.Status == "sat" {
				ob.Result.Model = parseModel(r2.Output)
				ob.Result.Tried = append(ob.Result.Tried, "weakened-query:sat")
			}
		}
		rdir := filepath.Join(o.out, "replays", o.prop)
		if ob.Result.Model != nil && replays < 6 {
			in := decodeModel(ob)
			key, _ := json.Marshal(in)
			if !seenInput[j.v.fname+string(key)] {
				seenInput[j.v.fname+string(key)] = true
				replays++
				ob.Replay = w.replay(j.v, ob, in, rdir, false)
			}
		}
		if ob.Replay == nil || !ob.Replay.Confirmed {
			// no confirmed input from the solver: bounded search for a concrete witness (once per function)
			fk := j.v.fname + "#search"
			if prev, ok := searchDone[fk]; ok {
				if prev != nil && prev.Confirmed {
					ob.Replay = prev
				}
			} else {
				sr := w.replay(j.v, ob, nil, rdir, true)
				searchDone[fk] = sr
				if sr.Confirmed || ob.Replay == nil {
					ob.Replay = sr
				}
			}
		}
	}
	retReach := map[string]bool{}
	byFunc := map[string]*FuncReport{}
	for _, fr := range rep.Funcs {
		byFunc[fr.Name] = fr
	}
	for _, j := range jobs {
		ob := j.o
		rep.Obls = append(rep.Obls, ob)
		r := ob.Result
		rep.SolverMs += r.Ms
		fr := byFunc[j.v.fc.Pkg+"."+j.v.fc.Name]
		if fr == nil {
			fr = byFunc[j.v.fc.Pkg+"."+j.v.fc.Name]
		}
		ok := false
		if ob.Cover {
			// a cover must be satisfiable (unknown is tolerated: reachability could not be refuted).
			// Hard: the precondition is satisfiable and some return is reachable; other
			// unreachable points (dead branches under a behaviour's precondition) are only listed.
			ok = r.Status != "unsat"
			fk := j.v.fname + "[" + j.v.behav + "]"
			if strings.Contains(ob.Name, "cover.return") {
				if ok {
					retReach[fk] = true
				} else if !retReach[fk] {
					retReach[fk] = false
				}
			}
			if !ok {
				rep.Vacuity = append(rep.Vacuity, ob.Name+": unreachable under the contract")
				if !strings.Contains(ob.Name, "requires-satisfiable") {
					ok = true
				}
			}
		} else {
			ok = r.Status == "unsat"
		}
		if fr != nil && !ob.Cover {
			fr.Obligations++
			if ok {
				fr.Discharged++
			}
		}
		if ok {
			if !ob.Cover {
				rep.ByBackend[r.Solver]++
			}
		} else {
			rep.Failed = append(rep.Failed, ob)
		}
		if o.verbose {
			fmt.Printf("  %-8s %-70s %s %dms\n", r.Status, ob.Name, r.Solver, r.Ms)
		}
	}
	for _, fk := range sortedKeys(retReach) {
		if !retReach[fk] {
			rep.Errors = append(rep.Errors, fk+": no return is reachable under the contract (vacuous)")
		}
	}
	sort.Slice(rep.Failed, func(i, j int) bool { return rep.Failed[i].Name < rep.Failed[j].Name })
	return rep
}

func safeRun(v *FnVC) (stale *Clause, err error) {
	defer func() {
		if r := recover(); r != nil {
			if se, ok := r.(specError); ok {
				err = fmt.Errorf("contract error: %s", se.msg)
				stale = se.cl
				return
			}
			panic(r)
		}
	}()
	v.run()
	return nil, nil
}

// relevantClause: the clause carries the property (its own tags, else the function's).
func relevantClause(fc *FuncContract, cl *Clause, prop string) bool {
	if prop == "" {
		return true
	}
	if len(cl.Props) > 0 {
		return contains(cl.Props, prop)
	}
	return contains(fc.Props, prop)
}

func contains(xs []string, x string) bool {
	for _, y := range xs {
		if y == x {
			return true
		}
	}
	return false
}

// finish prints the verdict, writes evidence and replay files; returns the exit code.
func (rep *Report) finish(o *checkOpts) int {
	nObl, nDis := 0, 0
	var samples []interface{}
	for _, ob := range rep.Obls {
		if ob.Cover {
			continue
		}
		nObl++
		if ob.Result.Status == "unsat" {
			nDis++
			if len(samples) < 12 {
				samples = append(samples, map[string]interface{}{"obligation": ob.Name, "backend": ob.Result.Solver, "ms": ob.Result.Ms, "clause": ob.Text})
			}
		}
	}
	exit := 0
	violations := 0
	replayDir := filepath.Join(o.out, "replays", o.prop)
	for _, e := range rep.Errors {
		fmt.Printf("ERROR: %s\n", e)
	}
	for _, ob := range rep.Failed {
		violations++
		os.MkdirAll(replayDir, 0o755)
		path := filepath.Join(replayDir, sanitize(ob.Name)+".json")
		rp := map[string]interface{}{
			"property": o.prop, "obligation": ob.Name, "kind": ob.Kind, "clause": ob.Text,
			"solver_status": ob.Result.Status, "solver": ob.Result.Solver, "tried": ob.Result.Tried,
			"solver_output": truncate(ob.Result.Output, 4000), "position": ob.Pos.String(),
		}
		suffix := " no-failing-input-found"
		if ob.Result.Model != nil {
			rp["model"] = decodeModel(ob)
		}
		if ob.Witness != "" {
			// the witness is itself the failing input: an address inside the table entry that is globally routable
			rp["witness_address"] = ob.Witness
			fmt.Printf("  witness: address %s lies in the table entry but in no non-global block\n", ob.Witness)
			suffix = ""
		}
		if ob.Replay != nil {
			rp["replay"] = ob.Replay
			if ob.Replay.Confirmed {
				suffix = ""
			}
		}
		data, _ := json.MarshalIndent(rp, "", " ")
		os.WriteFile(path, data, 0o644)
		fmt.Printf("FAILED obligation %s (%s) at %s\n", ob.Name, ob.Result.Status, ob.Pos)
		if m, ok := rp["model"]; ok {
			mj, _ := json.Marshal(m)
			fmt.Printf("  counterexample: %s\n", mj)
		}
		if ob.Replay != nil {
			switch {
			case ob.Replay.Confirmed:
				fmt.Printf("  replay on the real code CONFIRMS a violation (%s): %s\n    %s\n", ob.Replay.Mode, ob.Replay.Witness, ob.Replay.Cmd)
			case ob.Replay.Skipped != "":
				fmt.Printf("  replay skipped: %s\n", ob.Replay.Skipped)
			default:
				fmt.Printf("  replay did not reproduce a failure with this input\n")
			}
		}
		fmt.Printf("VIOLATION property=%s replay=%s%s\n", o.prop, path, suffix)
		exit = 1
	}
	// bounded stand-ins
	known := loadKnownFindings(o.out)
	var boundedEv []interface{}
	for _, sr := range rep.Standins {
		if sr.Error != "" {
			rep.Errors = append(rep.Errors, "bounded stand-in "+sr.Spec.Test+": "+sr.Error)
		}
		var fresh []string
		for _, mm := range sr.Mismatches {
			isKnown := false
			for _, kf := range known {
				if kf.Status != "open" || !(kf.Property == o.prop || contains(kf.Properties, o.prop)) {
					continue
				}
				for _, pat := range kf.Match {
					if strings.Contains(mm, pat) {
						isKnown = true
					}
				}
			}
			if isKnown {
				sr.Known = append(sr.Known, mm)
			} else {
				fresh = append(fresh, mm)
			}
		}
		for _, mm := range sr.Known {
			fmt.Printf("KNOWN-FINDING: property=%s %s\n", o.prop, mm)
		}
		for i, mm := range fresh {
			if i >= 10 {
				break
			}
			violations++
			os.MkdirAll(replayDir, 0o755)
			path := filepath.Join(replayDir, fmt.Sprintf("bounded-%s-%d.json", sr.Spec.Test, i+1))
			data, _ := json.MarshalIndent(map[string]interface{}{"property": o.prop, "obligation": "bounded/" + sr.Spec.Test, "failing_input": mm, "replay_cmd": sr.Cmd, "what": sr.Spec.What}, "", " ")
			os.WriteFile(path, data, 0o644)
			fmt.Printf("FAILED bounded stand-in %s: %s\n", sr.Spec.Test, mm)
			fmt.Printf("VIOLATION property=%s replay=%s\n", o.prop, path)
			exit = 1
		}
		sr.Mismatches = fresh
		boundedEv = append(boundedEv, sr)
	}
	if len(rep.Errors) > 0 {
		exit = 1
		os.MkdirAll(replayDir, 0o755)
		path := filepath.Join(replayDir, "meta-contract-present.json")
		data, _ := json.MarshalIndent(map[string]interface{}{"property": o.prop, "obligation": "meta/contract-present", "errors": rep.Errors}, "", " ")
		os.WriteFile(path, data, 0o644)
		fmt.Printf("VIOLATION property=%s replay=%s no-failing-input-found\n", o.prop, path)
		violations++
	}
	if nObl == 0 {
		fmt.Printf("ERROR: no obligations generated for %s\n", o.prop)
		exit = 1
	}
	var trusted []string
	trusted = append(trusted, "VC generator foxvc itself (not verified; guarded by the must-fail corpus)",
		"go/ssa translation of the source (x/tools v0.29.0)", "SMT solvers z3 4.8.12 / z3 5.1.0 / cvc5 1.0",
		"machine integers treated as mathematical integers (no overflow of int)")
	assumptions := []string{"scheduling, GC and memory-model effects are not modelled", "bodies of extern functions are replaced by their assumed contracts (listed per function)", "termination only where a decreases clause is given"}
	if samples == nil {
		samples = []interface{}{}
	}
	if rep.Vacuity == nil {
		rep.Vacuity = []string{}
	}
	for _, fr := range rep.Funcs {
		for _, n := range fr.Notes {
			assumptions = append(assumptions, fr.Name+": "+n)
		}
		for _, n := range fr.Unsupported {
			assumptions = append(assumptions, fr.Name+": unsupported construct abstracted (havoc): "+n)
		}
		if fr.Partial {
			assumptions = append(assumptions, fmt.Sprintf("%s: partial correctness only (%d safety conditions assumed, not claimed)", fr.Name, fr.SafetyAssumed))
		}
	}
	// contract-level assumptions: assume-at clauses, preconditions that partial callers assume, axioms,
	// and the assumed (extern) contracts of the functions called from the functions under contract
	onPanic := map[string]bool{}
	for _, fc := range rep.w.functionsForProp(o.prop) {
		for _, cl := range fc.Clauses {
			lab := cl.Label
			if cl.Kind == "assume" {
				assumptions = append(assumptions, fmt.Sprintf("%s.%s: assumed at %s: %s: %s", fc.Pkg, fc.Name, cl.Anchor, lab, truncate(cl.Text, 240)))
			}
			if cl.Kind == "ensures-on-panic" && !fc.Extern {
				onPanic[fc.Pkg+"."+fc.Name] = true
			}
			if cl.Kind == "ensures-on-panic" && fc.Extern {
				assumptions = append(assumptions, fmt.Sprintf("%s.%s: assumed exceptional postcondition (holds when it panics): %s", fc.Pkg, fc.Name, truncate(cl.Text, 240)))
			}
			if cl.Kind == "requires" && strings.HasPrefix(lab, "safety") {
				assumptions = append(assumptions, fmt.Sprintf("%s.%s: precondition %s is assumed (not proved) at call sites inside partially verified callers: %s", fc.Pkg, fc.Name, lab, truncate(cl.Text, 240)))
			}
		}
	}
	for _, k := range sortedKeys(onPanic) {
		assumptions = append(assumptions, k+": exceptional postconditions (ensures-on-panic) are checked at calls of callees that may panic (may-panic flag, panics-when clause, no contract, function value) and at explicit panics; a callee under contract with neither flag is taken not to panic; run-time panics (nil dereference, index) inside the function itself are the safety obligations, not exceptional exits")
	}
	for _, ax := range rep.w.cs.Axioms {
		if !ax.Lemma {
			assumptions = append(assumptions, "axiom "+ax.Name+" (assumed): "+truncate(ax.Text, 200))
		}
	}
	var exts []string
	for _, k := range sortedKeys(rep.w.cs.Funcs) {
		if rep.w.cs.Funcs[k].Extern {
			exts = append(exts, k)
		}
	}
	assumptions = append(assumptions, fmt.Sprintf("%d extern (assumed) contracts are loaded; those used by this property's functions are the calls listed in foxvc/externs/*.spec and the `extern` blocks of /repo/**/verif_contracts*.go", len(exts)))
	ev := map[string]interface{}{
		"property_id": o.prop, "tier": o.tier, "seed": o.seed, "level": "proof",
		"coverage": map[string]interface{}{
			"obligations": nObl, "discharged": nDis,
			"checker_cmd":              fmt.Sprintf("foxvc check -repo %s -prop %s -tier %s", o.repo, o.prop, o.tier),
			"trusted_base":             trusted,
			"samples":                  samples,
			"functions_under_contract": rep.Funcs,
			"by_backend":               rep.ByBackend,
			"solver_time_s":            float64(rep.SolverMs) / 1000,
			"vacuity_failures":         rep.Vacuity,
			"bounded":                  boundedEv,
			"effect_closures":          rep.Effects,
			"stability":                map[string]interface{}{"extra_seeds_per_obligation": o.stab, "slow_or_undecided_under_another_seed": rep.Unstable},
		},
		"assumptions": assumptions,
		"wall_s":      rep.WallS,
		"violations":  violations,
	}
	os.MkdirAll(filepath.Join(o.out, "evidence"), 0o755)
	data, _ := json.MarshalIndent(ev, "", " ")
	os.WriteFile(filepath.Join(o.out, "evidence", o.prop+".json"), data, 0o644)
	fmt.Printf("%s: %d obligations, %d discharged, %d failed, %d functions, %.1fs\n", o.prop, nObl, nDis, len(rep.Failed), len(rep.Funcs), rep.WallS)
	return exit
}

func truncate(s string, n int) string {
	if len(s) > n {
		return s[:n] + "..."
	}
	return s
}

func decodeModel(ob *Obligation) map[string]interface{} {
	out := map[string]interface{}{}
	m := ob.Result.Model
	for _, mv := range ob.Vars {
		switch mv.Type {
		case "string":
			n, ok := smtValInt(m[fmt.Sprintf("(s_len %s)", mv.Term)])
			if !ok {
				continue
			}
			var bs []byte
			for i := int64(0); i < n && i < 24; i++ {
				c, _ := smtValInt(m[fmt.Sprintf("(str_at %s %d)", mv.Term, i)])
				bs = append(bs, byte(c))
			}
			out[mv.Name] = string(bs)
		case "int":
			if n, ok := smtValInt(m[mv.Term]); ok {
				out[mv.Name] = n
			}
		case "bool":
			out[mv.Name] = m[mv.Term] == "true"
		}
	}
	return out
}
