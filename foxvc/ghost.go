package main

// Ghost assertions anchored in function bodies (assert-at), frame checks.

import (
	"go/token"
	"strconv"
	"strings"

	"golang.org/x/tools/go/ssa"
)

// anchors:  "call NAME#k"  (before the k-th call of NAME, arguments evaluated)
//
//	"after NAME#k" (after it returned)
//	"store T.f#k"  (before the k-th store to field f of a T)
//	"label L"      (on entry of the block labelled L)
func (v *FnVC) anchored(anchor string) []*Clause {
	var out []*Clause
	for _, cl := range v.fc.Clauses {
		if (cl.Kind == "assert" || cl.Kind == "assume") && cl.Anchor == anchor && (cl.Behav == "" || cl.Behav == v.behav) {
			out = append(out, cl)
		}
	}
	return out
}

func (v *FnVC) runAnchored(anchor string, pos token.Pos, extra map[string]Term) {
	cls := v.anchored(anchor)
	if len(cls) == 0 {
		return
	}
	for _, cl := range cls {
		v.usedClause[cl] = true
	}
	env := v.newEnvAt(v.st, pos)
	for k, t := range extra {
		env.vars[k] = t
	}
	for i, cl := range cls {
		for j, c := range v.flatten(cl.E) {
			t := v.specBoolE(c, env, cl)
			if cl.Kind == "assume" {
				v.assume(t)
				continue
			}
			v.behavClause = cl.Behav != ""
			v.oblige("assert@"+strings.ReplaceAll(anchor, " ", ":"), v.clauseLabel(cl, i, j), t, cl.Props, true, c.String(), pos)
			// an assertion that has been obliged here may be used by what follows (standard assert semantics)
			v.assume(t)
		}
	}
}

func (v *FnVC) ghostAtCall(site, when string, pnames []string, args []Term) {
	extra := map[string]Term{}
	for i, n := range pnames {
		if i < len(args) {
			if n == "__call_result" {
				extra["call_result"] = args[i]
				continue
			}
			extra["arg_"+n] = args[i]
		}
	}
	if when == "before" {
		v.runAnchored("call "+site, token.NoPos, extra)
		v.ghostSetsAt("call "+site, extra)
	} else {
		v.runAnchored("after "+site, token.NoPos, extra)
		v.ghostSetsAt("after "+site, extra)
	}
}

// ghostSetsAt executes ghost assignments anchored at a call site ("ghost-set call NAME#k : g[i] = e").
func (v *FnVC) ghostSetsAt(anchor string, extra map[string]Term) {
	for i, gs := range v.fc.GhostSets {
		if gs[0] != anchor {
			continue
		}
		v.usedGhostSet[i] = true
		env := v.newEnvAt(v.st, token.NoPos)
		for k, t := range extra {
			env.vars[k] = t
		}
		v.ghostAssignSafe(i, gs[1], gs[2], env)
	}
}

// ghostAssignSafe: a ghost assignment that no longer fits the code is recorded as stale and skipped.
func (v *FnVC) ghostAssignSafe(i int, lhs, rhs string, env *Env) {
	defer func() {
		if r := recover(); r != nil {
			if se, ok := r.(specError); ok {
				v.staleGhostSet[i] = se.msg
				return
			}
			panic(r)
		}
	}()
	v.ghostAssign(lhs, rhs, env)
}

// ghostAssign performs `lhs = rhs` on a ghost variable; lhs is NAME or NAME[index].
func (v *FnVC) ghostAssign(lhs, rhs string, env *Env) {
	name, idx := lhs, ""
	if k := strings.Index(lhs, "["); k > 0 && strings.HasSuffix(lhs, "]") {
		name, idx = strings.TrimSpace(lhs[:k]), lhs[k+1:len(lhs)-1]
	}
	g, ok := v.w.cs.Ghosts[name]
	if !ok {
		panic(specError{msg: "ghost-set: unknown ghost variable " + name})
	}
	e, err := ParseExpr(rhs)
	if err != nil {
		panic(specError{msg: "ghost-set: " + err.Error()})
	}
	t := v.specTerm(e, env, nil)
	key := v.w.ghostKey(g)
	if idx == "" {
		v.set(key, v.heapSort(key), t.S)
		return
	}
	ie, err := ParseExpr(idx)
	if err != nil {
		panic(specError{msg: "ghost-set: " + err.Error()})
	}
	it := v.specTerm(ie, env, nil)
	v.set(key, v.heapSort(key), "(store "+v.get(key)+" "+it.S+" "+t.S+")")
}

func (v *FnVC) ghostAtStore(x *ssa.Store, p *Place) {
	if p.Kind == "local" {
		// `assert-at store-local NAME : e` holds before every assignment to the local variable NAME
		// (new_value is the value being assigned)
		if n := v.localNames[p.Key]; n != "" && !returnStore(x) {
			v.runAnchored("store-local "+n, x.Pos(), map[string]Term{"new_value": v.val(x.Val)})
		}
		return
	}
	if p.Kind != "field" {
		return
	}
	name := p.SName + "." + p.ST.Field(p.Field).Name()
	v.storeCnt[name]++
	v.runAnchored("store "+name+"#"+strconv.Itoa(v.storeCnt[name]), x.Pos(), map[string]Term{"target": p.Base})
}

// frameCheck: at a return, every heap not named by `modifies` must be unchanged
// on objects that existed at entry.  (Generated only when the contract has a
// modifies clause or is declared `pure`.)
func (v *FnVC) frameCheck(site string) {
	// implemented in frame.go once heap contracts need it
	v.frameObligations(site)
}

// unusedAnchored lists anchored or loop clauses whose anchor / loop never occurred in the function body.
func (v *FnVC) unusedAnchored() []*Clause {
	var out []*Clause
	for _, cl := range v.fc.Clauses {
		if cl.Behav != "" && cl.Behav != v.behav {
			continue
		}
		if (cl.Anchor != "" || cl.Loop != "") && !v.usedClause[cl] {
			out = append(out, cl)
		}
	}
	return out
}

// returnStore: the store is part of a return statement with named results (`return a, b` assigns the
// results first): only stores, loads of the results and the deferred calls follow it up to the Return.
func returnStore(x *ssa.Store) bool {
	b := x.Block()
	if len(b.Instrs) == 0 {
		return false
	}
	if _, ok := b.Instrs[len(b.Instrs)-1].(*ssa.Return); !ok {
		return false
	}
	seen := false
	for _, ins := range b.Instrs {
		if ins == ssa.Instruction(x) {
			seen = true
			continue
		}
		if !seen {
			continue
		}
		switch y := ins.(type) {
		case *ssa.Store, *ssa.RunDefers, *ssa.Return, *ssa.DebugRef:
		case *ssa.UnOp:
			if y.Op != token.MUL {
				return false
			}
		default:
			return false
		}
	}
	return true
}
